//go:build verif

package verifrt

import (
	"encoding/json"
	"fmt"
	"os"
	"runtime/debug"
	"time"
)

// Case is one native replay request.
type Case struct {
	Harness string   `json:"harness"`
	Vector  []uint64 `json:"vector"`
	// Repeat > 1 runs the case up to that many times and reports the first
	// run that does not end "ok" (schedule-dependent counterexamples).
	Repeat int `json:"repeat,omitempty"`
}

// Outcome is the native result of a Case.
type Outcome struct {
	Harness  string   `json:"harness"`
	Status   string   `json:"status"` // ok, assume-failed, assert-failed, panic, exhausted, hang
	Msg      string   `json:"msg,omitempty"`
	Observed []string `json:"observed,omitempty"`
	Covered  []string `json:"covered,omitempty"`
	Known    []string `json:"known,omitempty"`
	Stack    string   `json:"stack,omitempty"`
}

// RunOne runs one harness under a vector and classifies the result.
func RunOne(fn func(), c Case, hang time.Duration) (out Outcome) {
	out.Harness = c.Harness
	done := make(chan struct{})
	var st *State
	classify := func(r any) {
		switch r := r.(type) {
		case AssumptionFailed:
			out.Status = "assume-failed"
		case AssertionFailed:
			out.Status = "assert-failed"
			out.Msg = r.Msg
		case VectorExhausted:
			out.Status = "exhausted"
		default:
			out.Status = "panic"
			out.Msg = fmt.Sprint(r)
			out.Stack = string(debug.Stack())
		}
	}
	go func() {
		defer close(done)
		defer func() {
			if r := recover(); r != nil {
				classify(r)
			}
		}()
		st = Begin(c.Vector)
		fn()
		out.Status = "ok"
	}()
	hung := false
	select {
	case <-done:
	case <-time.After(hang):
		hung = true
	}
	// a failure recorded by any goroutine of the harness decides the outcome
	// (the goroutine that raised it has exited; the others may have finished
	// or be stuck behind it)
	if st != nil {
		if a := st.Aborted(); a != nil {
			classify(a)
			hung = false
		}
	}
	if hung {
		out.Status = "hang"
		return out
	}
	if st != nil {
		out.Observed, out.Covered, out.Known = st.Observed, st.Covered, st.Known
	}
	return out
}

// RunFile runs all cases of the file named by VERIF_REPLAY_IN and writes the
// outcomes to VERIF_REPLAY_OUT.
func RunFile(fns map[string]func()) error {
	in, outp := os.Getenv("VERIF_REPLAY_IN"), os.Getenv("VERIF_REPLAY_OUT")
	if in == "" {
		return fmt.Errorf("VERIF_REPLAY_IN not set")
	}
	b, err := os.ReadFile(in)
	if err != nil {
		return err
	}
	var cases []Case
	if err := json.Unmarshal(b, &cases); err != nil {
		return err
	}
	var outs []Outcome
	for _, c := range cases {
		fn := fns[c.Harness]
		if fn == nil {
			outs = append(outs, Outcome{Harness: c.Harness, Status: "missing"})
			continue
		}
		o := RunOne(fn, c, 20*time.Second)
		for i := 1; i < c.Repeat && o.Status == "ok"; i++ {
			o = RunOne(fn, c, 20*time.Second)
		}
		outs = append(outs, o)
	}
	ob, _ := json.MarshalIndent(outs, "", " ")
	if outp == "" {
		fmt.Println(string(ob))
		return nil
	}
	return os.WriteFile(outp, ob, 0o644)
}
