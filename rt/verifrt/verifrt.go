//go:build verif

// Package verifrt is the harness runtime: sources of nondeterministic values,
// assumptions, assertions, cover points and observations.
//
// Under the symbolic executor (gosym) every function in this package is
// intercepted: draws become solver variables, Assume/Assert become path
// constraints and queries.  Natively (go test -tags verif with an overlay)
// the draws are read, in order, from a replay vector, so that a
// counterexample or a sampled path found by the solver can be re-run against
// the real build.
package verifrt

import (
	"fmt"
	"os"
	"runtime"
	"sync"
	"time"
)

// AssumptionFailed is the panic value raised natively when an assumption
// does not hold under the replay vector.
type AssumptionFailed struct{}

// AssertionFailed is the panic value raised natively by a failing Assert.
type AssertionFailed struct{ Msg string }

// VectorExhausted is raised when the harness draws more values than the
// vector holds.
type VectorExhausted struct{}

// State is the native replay state.
type State struct {
	Vector   []uint64
	pos      int
	Observed []string
	Covered  []string
	Known    []string

	mu sync.Mutex
	// aborted is the first Assume/Assert/vector failure of the run, whichever
	// goroutine of the harness raised it.
	aborted any
}

// abort records the first failure of the run and ends the calling goroutine
// (deferred calls still run).  Panicking instead would take the whole test
// process down when the failure is raised in a goroutine the harness
// started.
func abort(why any) {
	if cur != nil {
		cur.mu.Lock()
		if cur.aborted == nil {
			cur.aborted = why
		}
		cur.mu.Unlock()
	}
	runtime.Goexit()
}

// Aborted returns the first recorded failure of the run, if any.
func (s *State) Aborted() any {
	s.mu.Lock()
	defer s.mu.Unlock()
	return s.aborted
}

var cur *State

// Begin installs a replay vector.
func Begin(vec []uint64) *State {
	cur = &State{Vector: vec}
	return cur
}

func next() uint64 {
	if cur == nil {
		panic("verifrt: no replay vector installed (harnesses only run under gosym or gosym replay)")
	}
	if cur.pos >= len(cur.Vector) {
		abort(VectorExhausted{})
	}
	v := cur.Vector[cur.pos]
	cur.pos++
	return v
}

func Byte() byte     { return byte(next()) }
func Uint16() uint16 { return uint16(next()) }
func Uint32() uint32 { return uint32(next()) }
func Uint64() uint64 { return next() }
func Int() int       { return int(next()) }
func Int64() int64   { return int64(next()) }
func Int32() int32   { return int32(next()) }
func Bool() bool     { return byte(next()) != 0 }

// Len returns a length in 0..max; the executor forks over all of them.
func Len(max int) int {
	v := int(next())
	if v < 0 || v > max {
		abort(AssumptionFailed{})
	}
	return v
}

// Choice returns a value in 0..n-1; the executor forks over all of them.
func Choice(n int) int {
	v := int(next())
	if v < 0 || v >= n {
		abort(AssumptionFailed{})
	}
	return v
}

// Bytes returns n arbitrary bytes.
func Bytes(n int) []byte {
	b := make([]byte, n)
	for i := range b {
		b[i] = Byte()
	}
	return b
}

// String returns a string of n arbitrary bytes.
func String(n int) string { return string(Bytes(n)) }

// Assume restricts the inputs considered.
func Assume(c bool) {
	if !c {
		abort(AssumptionFailed{})
	}
}

// Assert states the property.
func Assert(c bool, msg string) {
	if !c {
		abort(AssertionFailed{Msg: msg})
	}
}

// Cover marks a point that must be reachable (vacuity guard).
func Cover(label string) { cur.Covered = append(cur.Covered, label) }

// Known attributes violations found on paths where cond holds to the known
// finding key.
func Known(key string, cond bool) {
	if cond {
		cur.Known = append(cur.Known, key)
	}
}

func ObserveInt(label string, v int64) {
	cur.Observed = append(cur.Observed, fmt.Sprintf("%s=%d", label, v))
}
func ObserveBool(label string, v bool) {
	cur.Observed = append(cur.Observed, fmt.Sprintf("%s=%v", label, v))
}
func ObserveString(label string, v string) {
	cur.Observed = append(cur.Observed, fmt.Sprintf("%s=%q", label, v))
}
func ObserveBytes(label string, v []byte) {
	cur.Observed = append(cur.Observed, fmt.Sprintf("%s=%q", label, string(v)))
}

// Yield is a scheduling point under the executor; natively it yields the
// processor.
func Yield() { runtime.Gosched() }

// Thorough reports whether the thorough tier is being run (deeper bounds).
func Thorough() bool { return thorough }

var thorough = os.Getenv("VERIF_TIER") == "thorough"

// Bool2 returns a boolean the executor forks on (both values explored as
// separate shapes) instead of keeping it symbolic.
func Bool2() bool { return Choice(2) == 1 }

// Quiesce returns when no other goroutine can make progress any more (under
// the executor: every other goroutine has finished or is blocked).  Natively
// it is a best-effort pause.
func Quiesce() {
	for i := 0; i < 50; i++ {
		runtime.Gosched()
	}
	time.Sleep(2 * time.Millisecond)
}
