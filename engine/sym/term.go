// Package sym is a bounded symbolic executor for go/ssa programs with an SMT
// solver as decision procedure.
package sym

import (
	"fmt"
	"strings"
)

// Sort of a term: 0 = Bool, 1..64 = bit-vector of that width, SortInt =
// mathematical integer (int-mode).
type Sort int

const (
	SortBool Sort = 0
	SortInt  Sort = -1
)

type Op uint8

const (
	OpConst Op = iota
	OpVar
	OpNot
	OpAnd
	OpOr
	OpIte
	OpEq
	OpAdd
	OpSub
	OpMul
	OpUDiv
	OpURem
	OpSDiv
	OpSRem
	OpBAnd
	OpBOr
	OpBXor
	OpBNot
	OpNeg
	OpShl
	OpLShr
	OpAShr
	OpULt
	OpULe
	OpSLt
	OpSLe
	OpExtract // val = hi<<8|lo
	OpZExt
	OpSExt
	OpConcat
	// int-mode
	OpIAdd
	OpISub
	OpIMul
	OpIDiv // SMT div (floor for positive divisor)
	OpIMod // SMT mod
	OpILt
	OpILe
	OpINeg
)

var opNames = map[Op]string{
	OpNot: "not", OpAnd: "and", OpOr: "or", OpIte: "ite", OpEq: "=",
	OpAdd: "bvadd", OpSub: "bvsub", OpMul: "bvmul", OpUDiv: "bvudiv", OpURem: "bvurem",
	OpSDiv: "bvsdiv", OpSRem: "bvsrem", OpBAnd: "bvand", OpBOr: "bvor", OpBXor: "bvxor",
	OpBNot: "bvnot", OpNeg: "bvneg", OpShl: "bvshl", OpLShr: "bvlshr", OpAShr: "bvashr",
	OpULt: "bvult", OpULe: "bvule", OpSLt: "bvslt", OpSLe: "bvsle", OpConcat: "concat",
	OpIAdd: "+", OpISub: "-", OpIMul: "*", OpIDiv: "div", OpIMod: "mod", OpILt: "<", OpILe: "<=", OpINeg: "-",
}

type Term struct {
	id   int
	op   Op
	sort Sort
	val  uint64 // const value (masked to width; for Int: int64 bits), var index, extract hi/lo
	a    [3]*Term
	n    int8 // number of args
	name string
	gen  int // solver generation in which this term has been defined
	sup  *support
	ts   *bitset
	tab  *[256]uint64
	sz   int32 // tree size (capped)
}

func (t *Term) Sort() Sort    { return t.sort }
func (t *Term) IsConst() bool { return t.op == OpConst }
func (t *Term) ID() int       { return t.id }

// Const returns the constant value (zero-extended).
func (t *Term) Const() uint64 { return t.val }

// SConst returns the constant sign-extended from the term's width.
func (t *Term) SConst() int64 {
	if t.sort == SortInt {
		return int64(t.val)
	}
	w := uint(t.sort)
	if w >= 64 || w == 0 {
		return int64(t.val)
	}
	return int64(t.val<<(64-w)) >> (64 - w)
}

func (t *Term) IsTrue() bool  { return t.op == OpConst && t.sort == SortBool && t.val == 1 }
func (t *Term) IsFalse() bool { return t.op == OpConst && t.sort == SortBool && t.val == 0 }

type termKey struct {
	op         Op
	sort       Sort
	val        uint64
	a0, a1, a2 int
}

// TermTable hash-conses terms.  One per machine (not shared between workers).
type TermTable struct {
	tab    map[termKey]*Term
	nextID int
	True   *Term
	False  *Term
}

func NewTermTable() *TermTable {
	tt := &TermTable{tab: map[termKey]*Term{}}
	tt.True = tt.mk(OpConst, SortBool, 1)
	tt.False = tt.mk(OpConst, SortBool, 0)
	return tt
}

func (tt *TermTable) Size() int { return len(tt.tab) }

func (tt *TermTable) mk(op Op, sort Sort, val uint64, args ...*Term) *Term {
	k := termKey{op: op, sort: sort, val: val, a0: -1, a1: -1, a2: -1}
	if len(args) > 0 {
		k.a0 = args[0].id
	}
	if len(args) > 1 {
		k.a1 = args[1].id
	}
	if len(args) > 2 {
		k.a2 = args[2].id
	}
	if t, ok := tt.tab[k]; ok {
		return t
	}
	t := &Term{id: tt.nextID, op: op, sort: sort, val: val, n: int8(len(args))}
	tt.nextID++
	copy(t.a[:], args)
	sz := int64(1)
	for _, a := range args {
		sz += int64(a.sz)
	}
	if sz > 1<<20 {
		sz = 1 << 20
	}
	t.sz = int32(sz)
	tt.tab[k] = t
	return t
}

func mask(w Sort) uint64 {
	if w >= 64 || w <= 0 {
		return ^uint64(0)
	}
	return (uint64(1) << uint(w)) - 1
}

// BV makes a bit-vector constant.
func (tt *TermTable) BV(w Sort, v uint64) *Term {
	if w == SortBool {
		panic("BV with bool sort")
	}
	if w == SortInt {
		return tt.mk(OpConst, SortInt, v)
	}
	return tt.mk(OpConst, w, v&mask(w))
}

func (tt *TermTable) Bool(b bool) *Term {
	if b {
		return tt.True
	}
	return tt.False
}

// VarW creates (or returns) the variable with index idx and sort w. Names are
// deterministic so that re-execution rebuilds identical terms.
func (tt *TermTable) VarW(idx int, w Sort) *Term {
	v := tt.mk(OpVar, w, uint64(idx))
	if v.name == "" {
		v.name = fmt.Sprintf("n%d_%d", idx, int(w)+1)
	}
	return v
}

func (tt *TermTable) Not(a *Term) *Term {
	switch {
	case a.IsTrue():
		return tt.False
	case a.IsFalse():
		return tt.True
	case a.op == OpNot:
		return a.a[0]
	}
	return tt.mk(OpNot, SortBool, 0, a)
}

func (tt *TermTable) And(a, b *Term) *Term {
	switch {
	case a.IsFalse() || b.IsFalse():
		return tt.False
	case a.IsTrue():
		return b
	case b.IsTrue():
		return a
	case a == b:
		return a
	case a.op == OpNot && a.a[0] == b, b.op == OpNot && b.a[0] == a:
		return tt.False
	}
	if a.id > b.id {
		a, b = b, a
	}
	return tt.mk(OpAnd, SortBool, 0, a, b)
}

func (tt *TermTable) Or(a, b *Term) *Term {
	switch {
	case a.IsTrue() || b.IsTrue():
		return tt.True
	case a.IsFalse():
		return b
	case b.IsFalse():
		return a
	case a == b:
		return a
	case a.op == OpNot && a.a[0] == b, b.op == OpNot && b.a[0] == a:
		return tt.True
	}
	if a.id > b.id {
		a, b = b, a
	}
	return tt.mk(OpOr, SortBool, 0, a, b)
}

func (tt *TermTable) Ite(c, a, b *Term) *Term {
	if a.sort != b.sort {
		panic(fmt.Sprintf("ite sort mismatch %d %d", a.sort, b.sort))
	}
	switch {
	case c.IsTrue():
		return a
	case c.IsFalse():
		return b
	case a == b:
		return a
	}
	if a.sort == SortBool {
		switch {
		case a.IsTrue() && b.IsFalse():
			return c
		case a.IsFalse() && b.IsTrue():
			return tt.Not(c)
		case a.IsTrue():
			return tt.Or(c, b)
		case a.IsFalse():
			return tt.And(tt.Not(c), b)
		case b.IsTrue():
			return tt.Or(tt.Not(c), a)
		case b.IsFalse():
			return tt.And(c, a)
		}
	}
	if c.op == OpNot {
		return tt.mk(OpIte, a.sort, 0, c.a[0], b, a)
	}
	// ite(c, x, ite(c, y, z)) = ite(c, x, z)
	if b.op == OpIte && b.a[0] == c {
		b = b.a[2]
	}
	if a.op == OpIte && a.a[0] == c {
		a = a.a[1]
	}
	return tt.mk(OpIte, a.sort, 0, c, a, b)
}

func (tt *TermTable) Eq(a, b *Term) *Term {
	if a.sort != b.sort {
		panic(fmt.Sprintf("eq sort mismatch %d %d", a.sort, b.sort))
	}
	if a == b {
		return tt.True
	}
	if a.op == OpConst && b.op == OpConst {
		return tt.Bool(a.val == b.val)
	}
	if a.sort == SortBool {
		switch {
		case a.IsTrue():
			return b
		case b.IsTrue():
			return a
		case a.IsFalse():
			return tt.Not(b)
		case b.IsFalse():
			return tt.Not(a)
		}
	}
	if a.op == OpConst {
		a, b = b, a
	}
	if b.op == OpConst {
		// push constants through ite: eq(ite(c,x,y),k) where x or y const
		if a.op == OpIte && (a.a[1].op == OpConst || a.a[2].op == OpConst) {
			return tt.Ite(a.a[0], tt.Eq(a.a[1], b), tt.Eq(a.a[2], b))
		}
		// zext(x) == k
		if a.op == OpZExt {
			x := a.a[0]
			if b.val&^mask(x.sort) != 0 {
				return tt.False
			}
			return tt.Eq(x, tt.BV(x.sort, b.val))
		}
	}
	if a.id > b.id {
		a, b = b, a
	}
	return tt.mk(OpEq, SortBool, 0, a, b)
}

func sext(v uint64, w Sort) int64 {
	if w >= 64 || w <= 0 {
		return int64(v)
	}
	return int64(v<<(64-uint(w))) >> (64 - uint(w))
}

// foldBin computes a binary op on constants. ok=false if not foldable
// (division by zero keeps SMT semantics, handled by caller never: the
// interpreter asserts divisor != 0 first).
func foldBin(op Op, w Sort, x, y uint64) (uint64, bool) {
	m := mask(w)
	switch op {
	case OpAdd:
		return (x + y) & m, true
	case OpSub:
		return (x - y) & m, true
	case OpMul:
		return (x * y) & m, true
	case OpUDiv:
		if y == 0 {
			return m, true
		}
		return x / y, true
	case OpURem:
		if y == 0 {
			return x, true
		}
		return x % y, true
	case OpSDiv:
		if y == 0 {
			return 0, false
		}
		sx, sy := sext(x, w), sext(y, w)
		if sy == -1 {
			return uint64(-sx) & m, true
		}
		return uint64(sx/sy) & m, true
	case OpSRem:
		if y == 0 {
			return 0, false
		}
		sx, sy := sext(x, w), sext(y, w)
		if sy == -1 {
			return 0, true
		}
		return uint64(sx%sy) & m, true
	case OpBAnd:
		return x & y, true
	case OpBOr:
		return x | y, true
	case OpBXor:
		return x ^ y, true
	case OpShl:
		if y >= uint64(w) {
			return 0, true
		}
		return (x << y) & m, true
	case OpLShr:
		if y >= uint64(w) {
			return 0, true
		}
		return x >> y, true
	case OpAShr:
		sx := sext(x, w)
		if y >= uint64(w) {
			y = uint64(w) - 1
		}
		return uint64(sx>>y) & m, true
	}
	return 0, false
}

func (tt *TermTable) Bin(op Op, a, b *Term) *Term {
	if a.sort != b.sort {
		panic(fmt.Sprintf("binop %s sort mismatch %d %d", opNames[op], a.sort, b.sort))
	}
	w := a.sort
	if w == SortInt {
		panic("bit-vector op on Int term")
	}
	if a.op == OpConst && b.op == OpConst {
		if v, ok := foldBin(op, w, a.val, b.val); ok {
			return tt.BV(w, v)
		}
	}
	switch op {
	case OpAdd:
		if a.op == OpConst {
			a, b = b, a
		}
		if b.op == OpConst && b.val == 0 {
			return a
		}
		// (x + c1) + c2
		if b.op == OpConst && a.op == OpAdd && a.a[1].op == OpConst {
			return tt.Bin(OpAdd, a.a[0], tt.BV(w, a.a[1].val+b.val))
		}
	case OpSub:
		if b.op == OpConst && b.val == 0 {
			return a
		}
		if a == b {
			return tt.BV(w, 0)
		}
		if b.op == OpConst {
			return tt.Bin(OpAdd, a, tt.BV(w, -b.val))
		}
	case OpMul:
		if a.op == OpConst {
			a, b = b, a
		}
		if b.op == OpConst {
			if b.val == 0 {
				return b
			}
			if b.val == 1 {
				return a
			}
		}
	case OpBAnd:
		if a.op == OpConst {
			a, b = b, a
		}
		if b.op == OpConst {
			if b.val == 0 {
				return b
			}
			if b.val == mask(w) {
				return a
			}
		}
		if a == b {
			return a
		}
	case OpBOr, OpBXor:
		if a.op == OpConst {
			a, b = b, a
		}
		if b.op == OpConst && b.val == 0 {
			return a
		}
		if a == b {
			if op == OpBOr {
				return a
			}
			return tt.BV(w, 0)
		}
	case OpShl, OpLShr, OpAShr:
		if b.op == OpConst && b.val == 0 {
			return a
		}
		if b.op == OpConst && b.val >= uint64(w) && op != OpAShr {
			return tt.BV(w, 0)
		}
	case OpUDiv:
		if b.op == OpConst && b.val == 1 {
			return a
		}
	}
	return tt.mk(op, w, 0, a, b)
}

func (tt *TermTable) Un(op Op, a *Term) *Term {
	w := a.sort
	if a.op == OpConst {
		switch op {
		case OpBNot:
			return tt.BV(w, ^a.val)
		case OpNeg:
			return tt.BV(w, -a.val)
		}
	}
	if a.op == op { // double negation
		return a.a[0]
	}
	return tt.mk(op, w, 0, a)
}

func (tt *TermTable) Cmp(op Op, a, b *Term) *Term {
	if a.sort != b.sort {
		panic(fmt.Sprintf("cmp sort mismatch %d %d", a.sort, b.sort))
	}
	w := a.sort
	if a.op == OpConst && b.op == OpConst {
		switch op {
		case OpULt:
			return tt.Bool(a.val < b.val)
		case OpULe:
			return tt.Bool(a.val <= b.val)
		case OpSLt:
			return tt.Bool(sext(a.val, w) < sext(b.val, w))
		case OpSLe:
			return tt.Bool(sext(a.val, w) <= sext(b.val, w))
		}
	}
	if a == b {
		return tt.Bool(op == OpULe || op == OpSLe)
	}
	// push through ite with constant leaves
	if b.op == OpConst && a.op == OpIte && (a.a[1].op == OpConst || a.a[2].op == OpConst) {
		return tt.Ite(a.a[0], tt.Cmp(op, a.a[1], b), tt.Cmp(op, a.a[2], b))
	}
	if a.op == OpConst && b.op == OpIte && (b.a[1].op == OpConst || b.a[2].op == OpConst) {
		return tt.Ite(b.a[0], tt.Cmp(op, a, b.a[1]), tt.Cmp(op, a, b.a[2]))
	}
	// zext(x) cmp const: narrow
	if a.op == OpZExt && b.op == OpConst {
		x := a.a[0]
		inRange := b.val&^mask(x.sort) == 0 && (op == OpULt || op == OpULe || sext(b.val, w) >= 0)
		if inRange {
			nop := op
			if op == OpSLt {
				nop = OpULt
			} else if op == OpSLe {
				nop = OpULe
			}
			return tt.Cmp(nop, x, tt.BV(x.sort, b.val))
		}
		if op == OpSLt || op == OpSLe {
			// zext value is non-negative
			if sext(b.val, w) < 0 {
				return tt.False
			}
			return tt.True // b >= 2^xw > any zext value
		}
		return tt.True // unsigned: b > max
	}
	if b.op == OpZExt && a.op == OpConst {
		x := b.a[0]
		inRange := a.val&^mask(x.sort) == 0 && (op == OpULt || op == OpULe || sext(a.val, w) >= 0)
		if inRange {
			nop := op
			if op == OpSLt {
				nop = OpULt
			} else if op == OpSLe {
				nop = OpULe
			}
			return tt.Cmp(nop, tt.BV(x.sort, a.val), x)
		}
		if op == OpSLt || op == OpSLe {
			if sext(a.val, w) < 0 {
				return tt.True
			}
			return tt.False
		}
		return tt.False
	}
	return tt.mk(op, SortBool, 0, a, b)
}

func (tt *TermTable) Extract(a *Term, hi, lo int) *Term {
	w := Sort(hi - lo + 1)
	if lo == 0 && w == a.sort {
		return a
	}
	if a.op == OpConst {
		return tt.BV(w, a.val>>uint(lo))
	}
	if (a.op == OpZExt || a.op == OpSExt) && lo == 0 {
		x := a.a[0]
		if w == x.sort {
			return x
		}
		if w < x.sort {
			return tt.Extract(x, hi, 0)
		}
		if a.op == OpZExt {
			return tt.ZExt(x, w)
		}
		return tt.SExt(x, w)
	}
	if a.op == OpIte && (a.a[1].op == OpConst || a.a[2].op == OpConst) {
		return tt.Ite(a.a[0], tt.Extract(a.a[1], hi, lo), tt.Extract(a.a[2], hi, lo))
	}
	switch a.op {
	case OpBOr, OpBAnd, OpBXor:
		// bit-slicing distributes over bitwise operators
		x, y := tt.Extract(a.a[0], hi, lo), tt.Extract(a.a[1], hi, lo)
		return tt.Bin(a.op, x, y)
	case OpShl:
		if k := a.a[1]; k.op == OpConst {
			sh := int(k.val)
			switch {
			case hi < sh:
				return tt.BV(w, 0)
			case lo >= sh:
				return tt.Extract(a.a[0], hi-sh, lo-sh)
			}
		}
	case OpLShr:
		if k := a.a[1]; k.op == OpConst {
			sh := int(k.val)
			if hi+sh < int(a.sort) {
				return tt.Extract(a.a[0], hi+sh, lo+sh)
			}
			if lo+sh >= int(a.sort) {
				return tt.BV(w, 0)
			}
		}
	case OpZExt:
		xs := int(a.a[0].sort)
		switch {
		case lo >= xs:
			return tt.BV(w, 0)
		case hi < xs:
			return tt.Extract(a.a[0], hi, lo)
		default:
			return tt.ZExt(tt.Extract(a.a[0], xs-1, lo), w)
		}
	case OpExtract:
		ilo := int(a.val & 0xff)
		return tt.Extract(a.a[0], hi+ilo, lo+ilo)
	case OpConcat:
		ls := int(a.a[1].sort)
		switch {
		case hi < ls:
			return tt.Extract(a.a[1], hi, lo)
		case lo >= ls:
			return tt.Extract(a.a[0], hi-ls, lo-ls)
		}
	}
	return tt.mk(OpExtract, w, uint64(hi)<<8|uint64(lo), a)
}

func (tt *TermTable) ZExt(a *Term, w Sort) *Term {
	if w == a.sort {
		return a
	}
	if w < a.sort {
		panic("zext to narrower")
	}
	if a.op == OpConst {
		return tt.BV(w, a.val)
	}
	if a.op == OpZExt {
		return tt.ZExt(a.a[0], w)
	}
	if a.op == OpIte && (a.a[1].op == OpConst || a.a[2].op == OpConst) {
		return tt.Ite(a.a[0], tt.ZExt(a.a[1], w), tt.ZExt(a.a[2], w))
	}
	return tt.mk(OpZExt, w, 0, a)
}

func (tt *TermTable) SExt(a *Term, w Sort) *Term {
	if w == a.sort {
		return a
	}
	if w < a.sort {
		panic("sext to narrower")
	}
	if a.op == OpConst {
		return tt.BV(w, uint64(sext(a.val, a.sort)))
	}
	if a.op == OpZExt {
		return tt.ZExt(a.a[0], w)
	}
	if a.op == OpIte && (a.a[1].op == OpConst || a.a[2].op == OpConst) {
		return tt.Ite(a.a[0], tt.SExt(a.a[1], w), tt.SExt(a.a[2], w))
	}
	return tt.mk(OpSExt, w, 0, a)
}

func (tt *TermTable) Concat(hi, lo *Term) *Term {
	w := hi.sort + lo.sort
	if hi.op == OpConst && lo.op == OpConst {
		return tt.BV(w, hi.val<<uint(lo.sort)|lo.val)
	}
	if hi.op == OpConst && hi.val == 0 {
		return tt.ZExt(lo, w)
	}
	return tt.mk(OpConcat, w, 0, hi, lo)
}

// ---- int-mode ----

func (tt *TermTable) Int(v int64) *Term { return tt.mk(OpConst, SortInt, uint64(v)) }

func (tt *TermTable) IBin(op Op, a, b *Term) *Term {
	if a.sort != SortInt || b.sort != SortInt {
		panic("IBin on non-Int")
	}
	if a.op == OpConst && b.op == OpConst {
		x, y := int64(a.val), int64(b.val)
		switch op {
		case OpIAdd:
			// Only fold when no int64 overflow.
			s := x + y
			if (s > x) == (y > 0) {
				return tt.Int(s)
			}
		case OpISub:
			s := x - y
			if (s < x) == (y > 0) {
				return tt.Int(s)
			}
		case OpIMul:
			if x == 0 || y == 0 {
				return tt.Int(0)
			}
			p := x * y
			if p/y == x && !(x == -1 && y == -1<<63) && !(y == -1 && x == -1<<63) {
				return tt.Int(p)
			}
		case OpIDiv:
			if y > 0 {
				q := x / y
				if x%y < 0 {
					q--
				}
				return tt.Int(q)
			}
		case OpIMod:
			if y > 0 {
				r := x % y
				if r < 0 {
					r += y
				}
				return tt.Int(r)
			}
		}
	}
	switch op {
	case OpIAdd:
		if a.op == OpConst && a.val == 0 {
			return b
		}
		if b.op == OpConst && b.val == 0 {
			return a
		}
	case OpISub:
		if b.op == OpConst && b.val == 0 {
			return a
		}
	case OpIMul:
		if a.op == OpConst && int64(a.val) == 1 {
			return b
		}
		if b.op == OpConst && int64(b.val) == 1 {
			return a
		}
	}
	return tt.mk(op, SortInt, 0, a, b)
}

func (tt *TermTable) ICmp(op Op, a, b *Term) *Term {
	if a.op == OpConst && b.op == OpConst {
		x, y := int64(a.val), int64(b.val)
		if op == OpILt {
			return tt.Bool(x < y)
		}
		return tt.Bool(x <= y)
	}
	if a == b {
		return tt.Bool(op == OpILe)
	}
	return tt.mk(op, SortBool, 0, a, b)
}

// ---- printing ----

func sortString(s Sort) string {
	switch {
	case s == SortBool:
		return "Bool"
	case s == SortInt:
		return "Int"
	}
	return fmt.Sprintf("(_ BitVec %d)", int(s))
}

func constString(t *Term) string {
	switch {
	case t.sort == SortBool:
		if t.val == 1 {
			return "true"
		}
		return "false"
	case t.sort == SortInt:
		v := int64(t.val)
		if v < 0 {
			if v == -1<<63 {
				return "(- 9223372036854775808)"
			}
			return fmt.Sprintf("(- %d)", -v)
		}
		return fmt.Sprintf("%d", v)
	}
	if t.sort%4 == 0 {
		return fmt.Sprintf("#x%0*x", int(t.sort)/4, t.val)
	}
	return fmt.Sprintf("#b%0*b", int(t.sort), t.val)
}

// ref is how a term is referred to inside other terms.
func (t *Term) ref() string {
	switch t.op {
	case OpConst:
		return constString(t)
	case OpVar:
		return t.name
	}
	return fmt.Sprintf("t%d", t.id)
}

// body is the SMT-LIB expression of a non-leaf term with args by reference.
func (t *Term) body() string {
	var sb strings.Builder
	switch t.op {
	case OpExtract:
		fmt.Fprintf(&sb, "((_ extract %d %d) %s)", t.val>>8, t.val&0xff, t.a[0].ref())
	case OpZExt:
		fmt.Fprintf(&sb, "((_ zero_extend %d) %s)", int(t.sort-t.a[0].sort), t.a[0].ref())
	case OpSExt:
		fmt.Fprintf(&sb, "((_ sign_extend %d) %s)", int(t.sort-t.a[0].sort), t.a[0].ref())
	default:
		sb.WriteByte('(')
		sb.WriteString(opNames[t.op])
		for i := 0; i < int(t.n); i++ {
			sb.WriteByte(' ')
			sb.WriteString(t.a[i].ref())
		}
		sb.WriteByte(')')
	}
	return sb.String()
}

// String renders the term fully expanded (debugging, small terms only).
func (t *Term) String() string {
	return t.str(0)
}

func (t *Term) str(depth int) string {
	switch t.op {
	case OpConst:
		if t.sort == SortBool || t.sort == SortInt {
			return constString(t)
		}
		return fmt.Sprintf("%d:%d", t.val, int(t.sort))
	case OpVar:
		return t.name
	}
	if depth > 12 {
		return "…"
	}
	var sb strings.Builder
	sb.WriteByte('(')
	switch t.op {
	case OpExtract:
		fmt.Fprintf(&sb, "extract[%d:%d]", t.val>>8, t.val&0xff)
	case OpZExt:
		fmt.Fprintf(&sb, "zext%d", int(t.sort))
	case OpSExt:
		fmt.Fprintf(&sb, "sext%d", int(t.sort))
	default:
		sb.WriteString(opNames[t.op])
	}
	for i := 0; i < int(t.n); i++ {
		sb.WriteByte(' ')
		sb.WriteString(t.a[i].str(depth + 1))
	}
	sb.WriteByte(')')
	return sb.String()
}

// ---- evaluation under a model ----

// Model maps variable index to value.
type Model map[int]uint64

type evaluator struct {
	m    Model
	memo map[int]uint64
}

// Eval evaluates t under m; unassigned variables are 0.
func Eval(t *Term, m Model) uint64 {
	e := &evaluator{m: m, memo: map[int]uint64{}}
	return e.eval(t)
}

func NewEvaluator(m Model) *evaluator    { return &evaluator{m: m, memo: map[int]uint64{}} }
func (e *evaluator) Eval(t *Term) uint64 { return e.eval(t) }

func (e *evaluator) eval(t *Term) uint64 {
	switch t.op {
	case OpConst:
		return t.val
	case OpVar:
		return e.m[int(t.val)] & mask(t.sort)
	}
	if v, ok := e.memo[t.id]; ok {
		return v
	}
	var r uint64
	if t.op == OpIte {
		// lazy: only the selected side
		if e.eval(t.a[0]) == 1 {
			r = e.eval(t.a[1])
		} else {
			r = e.eval(t.a[2])
		}
	} else {
		var av [3]uint64
		for i := 0; i < int(t.n); i++ {
			av[i] = e.eval(t.a[i])
		}
		r = evalOp(t, av)
	}
	e.memo[t.id] = r
	return r
}

// evalOp applies t's operator to concrete argument values.
func evalOp(t *Term, av [3]uint64) uint64 {
	var r uint64
	switch t.op {
	case OpNot:
		r = av[0] ^ 1
	case OpAnd:
		r = av[0] & av[1]
	case OpOr:
		r = av[0] | av[1]
	case OpIte:
		if av[0] == 1 {
			r = av[1]
		} else {
			r = av[2]
		}
	case OpEq:
		if av[0] == av[1] {
			r = 1
		}
	case OpULt, OpULe, OpSLt, OpSLe:
		x, y := av[0], av[1]
		w := t.a[0].sort
		var b bool
		switch t.op {
		case OpULt:
			b = x < y
		case OpULe:
			b = x <= y
		case OpSLt:
			b = sext(x, w) < sext(y, w)
		case OpSLe:
			b = sext(x, w) <= sext(y, w)
		}
		if b {
			r = 1
		}
	case OpBNot:
		r = ^av[0] & mask(t.sort)
	case OpNeg:
		r = -av[0] & mask(t.sort)
	case OpExtract:
		r = (av[0] >> (t.val & 0xff)) & mask(t.sort)
	case OpZExt:
		r = av[0]
	case OpSExt:
		r = uint64(sext(av[0], t.a[0].sort)) & mask(t.sort)
	case OpConcat:
		r = av[0]<<uint(t.a[1].sort) | av[1]
	case OpSDiv, OpSRem:
		x, y := av[0], av[1]
		if y == 0 {
			// SMT-LIB semantics
			if t.op == OpSRem {
				r = x
			} else if sext(x, t.sort) < 0 {
				r = 1
			} else {
				r = mask(t.sort)
			}
		} else {
			r, _ = foldBin(t.op, t.sort, x, y)
		}
	case OpIAdd:
		r = av[0] + av[1]
	case OpISub:
		r = av[0] - av[1]
	case OpIMul:
		r = av[0] * av[1]
	case OpINeg:
		r = -av[0]
	case OpIDiv, OpIMod:
		x, y := int64(av[0]), int64(av[1])
		if y == 0 {
			r = 0
		} else {
			q, m := x/y, x%y
			if m < 0 {
				if y > 0 {
					q, m = q-1, m+y
				} else {
					q, m = q+1, m-y
				}
			}
			if t.op == OpIDiv {
				r = uint64(q)
			} else {
				r = uint64(m)
			}
		}
	case OpILt:
		if int64(av[0]) < int64(av[1]) {
			r = 1
		}
	case OpILe:
		if int64(av[0]) <= int64(av[1]) {
			r = 1
		}
	default:
		r, _ = foldBin(t.op, t.sort, av[0], av[1])
	}
	return r
}

// CollectVars returns the variable indexes occurring in t.
func CollectVars(t *Term, seen map[int]bool, out map[int]*Term) {
	if seen[t.id] {
		return
	}
	seen[t.id] = true
	if t.op == OpVar {
		out[int(t.val)] = t
		return
	}
	for i := 0; i < int(t.n); i++ {
		CollectVars(t.a[i], seen, out)
	}
}
