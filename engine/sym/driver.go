package sym

import (
	"fmt"
	"os"
	"sort"
	"sync"
	"time"

	"golang.org/x/tools/go/ssa"
)

// HarnessSpec names one harness function and its options.
type HarnessSpec struct {
	Pkg  string // import path
	Func string
	Opts Options
}

// Sample is one explored path, written out.
type Sample struct {
	Harness  string   `json:"harness"`
	Vector   []uint64 `json:"vector"`
	Draws    []string `json:"draws,omitempty"`
	Covers   []string `json:"covers,omitempty"`
	Observed []string `json:"observed,omitempty"`
	Outcome  string   `json:"outcome"`
	Msg      string   `json:"msg,omitempty"`
}

// HarnessResult aggregates the exploration of one harness.
type HarnessResult struct {
	Spec         HarnessSpec
	Paths        int
	Completed    int
	Infeasible   int
	Inconclusive []string
	Violations   []Violation
	Covers       map[string]int
	Samples      []Sample
	Stats        Stats
	Solver       SolverStats
	Funcs        map[string]int
	Intrinsics   map[string]int
	InitProblems []string
	WallS        float64
	Error        string
	EndKinds     map[string]int
	TermCount    int
	SolverWhat   map[string]int
	// FirstViolation is the time of the first violation that is not
	// attributed to a known finding; exploration of the harness stops
	// ViolationGrace later (a broken tree must not make the check run away).
	FirstViolation time.Time
	StoppedEarly   bool
}

// ViolationGrace is how long a harness keeps exploring after its first
// unattributed violation.
var ViolationGrace = 60 * time.Second

type workQueue struct {
	mu      sync.Mutex
	cond    *sync.Cond
	items   [][]PrefixEntry
	active  int
	waiting int
	closed  bool
}

func newWorkQueue() *workQueue {
	q := &workQueue{}
	q.cond = sync.NewCond(&q.mu)
	return q
}

func (q *workQueue) push(p []PrefixEntry) {
	q.mu.Lock()
	q.items = append(q.items, p)
	q.mu.Unlock()
	q.cond.Signal()
}

// pop blocks until an item is available or all workers are idle.
func (q *workQueue) pop() ([]PrefixEntry, bool) {
	q.mu.Lock()
	defer q.mu.Unlock()
	for {
		if len(q.items) > 0 {
			it := q.items[len(q.items)-1]
			q.items = q.items[:len(q.items)-1]
			q.active++
			return it, true
		}
		if q.active == 0 || q.closed {
			q.closed = true
			q.cond.Broadcast()
			return nil, false
		}
		q.waiting++
		q.cond.Wait()
		q.waiting--
	}
}

func (q *workQueue) done() {
	q.mu.Lock()
	q.active--
	q.mu.Unlock()
	q.cond.Broadcast()
}

var forceDonate = os.Getenv("GOSYM_FORCEDONATE") != ""

func (q *workQueue) hungry() bool {
	q.mu.Lock()
	defer q.mu.Unlock()
	if forceDonate {
		return len(q.items) < 4
	}
	return q.waiting > 0 && len(q.items) < q.waiting
}

func (q *workQueue) abort() {
	q.mu.Lock()
	q.closed = true
	q.items = nil
	q.mu.Unlock()
	q.cond.Broadcast()
}

// RunHarness explores all paths of the harness with the given number of
// workers.
func RunHarness(p *Program, spec HarnessSpec, workers int, maxSamples int, deadline time.Time) *HarnessResult {
	start := time.Now()
	res := &HarnessResult{Spec: spec, Covers: map[string]int{}, Funcs: map[string]int{}, Intrinsics: map[string]int{}, EndKinds: map[string]int{}}
	sp := p.SSAPkgs[spec.Pkg]
	if sp == nil {
		res.Error = "package not loaded: " + spec.Pkg
		return res
	}
	p.ensureBuilt(sp)
	fn := sp.Func(spec.Func)
	if fn == nil {
		res.Error = "harness function not found: " + spec.Pkg + "." + spec.Func
		return res
	}
	q := newWorkQueue()
	q.push(nil)
	var mu sync.Mutex
	var wg sync.WaitGroup
	coverSampled := map[string]bool{}
	stopProgress := make(chan struct{})
	if os.Getenv("GOSYM_PROGRESS") != "" {
		go func() {
			t := time.NewTicker(10 * time.Second)
			defer t.Stop()
			for {
				select {
				case <-stopProgress:
					return
				case <-t.C:
					mu.Lock()
					fmt.Fprintf(os.Stderr, "[%s %.0fs] paths=%d completed=%d violations=%d ends=%v\n", spec.Func, time.Since(start).Seconds(), res.Paths, res.Completed, len(res.Violations), res.EndKinds)
					mu.Unlock()
				}
			}
		}()
	}
	for w := 0; w < workers; w++ {
		wg.Add(1)
		go func(w int) {
			defer wg.Done()
			opts := spec.Opts
			opts.Seed = spec.Opts.Seed
			m, err := NewMachine(p, opts)
			if err != nil {
				mu.Lock()
				res.Error = err.Error()
				mu.Unlock()
				q.abort()
				return
			}
			defer m.Close()
			m.harnessName = spec.Func
			defer func() {
				if r := recover(); r != nil {
					mu.Lock()
					res.Error = fmt.Sprintf("engine panic: %v", r)
					if os.Getenv("GOSYM_DEBUG") != "" {
						panic(r)
					}
					mu.Unlock()
					q.abort()
				}
				mu.Lock()
				res.Stats.add(m.Stats)
				res.Solver.add(m.solver.Stats)
				for k, v := range m.FunctionsEncoded() {
					res.Funcs[k] += v
				}
				for k, v := range m.intrinsicsUsed {
					res.Intrinsics[k] += v
				}
				res.InitProblems = appendUnique(res.InitProblems, m.initProblems...)
				res.TermCount += m.tt.Size()
				if m.solverWhat != nil {
					if res.SolverWhat == nil {
						res.SolverWhat = map[string]int{}
					}
					for k, v := range m.solverWhat {
						res.SolverWhat[k] += v
					}
				}
				mu.Unlock()
			}()
			for {
				prefix, ok := q.pop()
				if !ok {
					return
				}
				m.exploreItem(fn, prefix, q, res, &mu, coverSampled, maxSamples, deadline)
				q.done()
			}
		}(w)
	}
	wg.Wait()
	close(stopProgress)
	res.WallS = time.Since(start).Seconds()
	return res
}

func appendUnique(dst []string, src ...string) []string {
	for _, s := range src {
		found := false
		for _, d := range dst {
			if d == s {
				found = true
				break
			}
		}
		if !found {
			dst = append(dst, s)
		}
	}
	return dst
}

func (s *Stats) add(o Stats) {
	s.Paths += o.Paths
	s.Decisions += o.Decisions
	s.Steps += o.Steps
	s.Merges += o.Merges
	s.MergePaths += o.MergePaths
	s.MergeFails += o.MergeFails
	s.MemoHits += o.MemoHits
	s.Regions += o.Regions
	s.Infeasible += o.Infeasible
	s.Inconclusive += o.Inconclusive
	s.UnknownBranches += o.UnknownBranches
	s.UnknownAsserts += o.UnknownAsserts
	s.Concretizations += o.Concretizations
	s.Assertions += o.Assertions
	s.DomainDecided += o.DomainDecided
	s.IntervalDecided += o.IntervalDecided
	s.StaleModels += o.StaleModels
	s.Summaries += o.Summaries
	s.SummaryHits += o.SummaryHits
}

func (s *SolverStats) add(o SolverStats) {
	s.Sat += o.Sat
	s.Unsat += o.Unsat
	s.Unknown += o.Unknown
	s.Time += o.Time
	s.Errors += o.Errors
	s.Restarts += o.Restarts
}

// exploreItem runs the DFS below one prefix.
func (m *Machine) exploreItem(fn *ssa.Function, prefix []PrefixEntry, q *workQueue, res *HarnessResult, mu *sync.Mutex, coverSampled map[string]bool, maxSamples int, deadline time.Time) {
	m.solverPopTo(0)
	m.solver.Push()
	ex := m.newExplorer(nil)
	ex.decs = importPrefix(prefix)
	m.ex = ex
	defer func() {
		m.ex = nil
		m.solverPopTo(0)
	}()
	for {
		if !deadline.IsZero() && time.Now().After(deadline) {
			mu.Lock()
			res.Inconclusive = appendUnique(res.Inconclusive, m.harnessName+": time limit reached before exploration finished")
			mu.Unlock()
			q.abort()
			return
		}
		mu.Lock()
		fv := res.FirstViolation
		mu.Unlock()
		if !fv.IsZero() && time.Since(fv) > ViolationGrace {
			mu.Lock()
			res.StoppedEarly = true
			mu.Unlock()
			q.abort()
			return
		}
		m.violations = m.violations[:0]
		m.inconclusive = m.inconclusive[:0]
		pr := m.runPath(fn)
		m.Stats.Paths++
		// collect a sample when the path covers something new
		var sample *Sample
		mu.Lock()
		res.Paths++
		kind := "completed"
		if !pr.OK {
			kind = pr.End.String()
		}
		res.EndKinds[kind]++
		if pr.OK {
			res.Completed++
			for _, c := range m.pathCovers {
				res.Covers[c]++
			}
		}
		wantSample := false
		if pr.OK {
			for _, c := range m.pathCovers {
				if !coverSampled[c] {
					coverSampled[c] = true
					wantSample = true
				}
			}
			if len(res.Samples) < maxSamples && res.Completed%97 == 1 {
				wantSample = true
			}
		}
		switch {
		case pr.OK:
		case pr.End == endInfeasible || pr.End == endExhausted:
			res.Infeasible++
		case pr.End == endViolation:
		default:
			res.Inconclusive = appendUnique(res.Inconclusive, fmt.Sprintf("%s: path ended %s: %s", m.harnessName, pr.End, pr.Msg))
		}
		res.Inconclusive = appendUnique(res.Inconclusive, m.inconclusive...)
		res.Violations = append(res.Violations, m.violations...)
		if res.FirstViolation.IsZero() {
			for _, v := range m.violations {
				if v.KnownKey == "" {
					res.FirstViolation = time.Now()
					break
				}
			}
		}
		mu.Unlock()
		if wantSample {
			func() {
				defer func() {
					if r := recover(); r != nil {
						if _, ok := r.(pathEnd); !ok {
							panic(r)
						}
					}
				}()
				mod := m.ensureModel()
				vec, desc := m.vectorFromModel(mod)
				sample = &Sample{Harness: m.harnessName, Vector: vec, Draws: desc, Covers: append([]string(nil), m.pathCovers...), Observed: m.observationDigest(mod), Outcome: "ok"}
			}()
			if sample != nil {
				mu.Lock()
				res.Samples = append(res.Samples, *sample)
				mu.Unlock()
			}
		}
		if q.hungry() {
			for i := 0; i < 4; i++ {
				if p := m.donate(ex); p != nil {
					q.push(p)
				} else {
					break
				}
			}
		}
		if !m.advance(ex, 0) {
			return
		}
		// keep the term table bounded
		if m.tt.Size() > 3_000_000 {
			m.resetTerms()
		}
	}
}

// resetTerms drops all terms and restarts the solver; the current decision
// prefix is kept (literals are rebuilt on replay).
func (m *Machine) resetTerms() {
	m.tt = NewTermTable()
	m.summaries = map[string]value{}
	m.solver.TT = m.tt
	m.constCache = map[*ssa.Const]value{}
	m.solver.PopTo(0)
	m.solver.ResetBase()
	m.solver.Restart()
	m.dom = newDomState()
	m.solver.Push()
	ex := m.ex
	ex.asserted = 0
	ex.baseDepth = m.solver.Depth()
	ex.assumed = map[int]int{}
	ex.model = nil
	for i := range ex.decs {
		ex.decs[i].lit = nil
		ex.decs[i].memo, ex.decs[i].memoOK = nil, false
	}
	// globals initialised with terms from the old table keep working because
	// constants are re-created on demand; but cached global values hold old
	// *Term pointers: re-run initialisers.
	m.globals = map[*ssa.Global]*value{}
	m.globalObjs = map[*ssa.Global]*Obj{}
	m.inited = map[*ssa.Package]bool{}
}

// runMain runs the harness function as the main goroutine.
func (m *Machine) runMain(fn *ssa.Function) {
	m.call(nil, fn, nil)
}

// SortedCovers lists cover labels.
func (r *HarnessResult) SortedCovers() []string {
	var ks []string
	for k := range r.Covers {
		ks = append(ks, k)
	}
	sort.Strings(ks)
	return ks
}
