package sym

import (
	"fmt"
	"go/token"
	"go/types"

	"golang.org/x/tools/go/ssa"
)

func deref(t types.Type) types.Type {
	if p, ok := t.Underlying().(*types.Pointer); ok {
		return p.Elem()
	}
	panic(fmt.Sprintf("deref of non-pointer %v", t))
}

func (m *Machine) exec(fr *frame, instr ssa.Instruction) continuation {
	switch instr := instr.(type) {
	case *ssa.DebugRef:

	case *ssa.UnOp:
		fr.env[instr] = m.unop(fr, instr, fr.get(instr.X))

	case *ssa.BinOp:
		fr.env[instr] = m.binop(instr.Op, instr.X.Type(), fr.get(instr.X), fr.get(instr.Y), instr.Y.Type())

	case *ssa.Call:
		fn, args := m.prepareCall(fr, &instr.Call)
		if m.initing > 0 && fr.fn.Synthetic != "" && fr.fn.Name() == "init" {
			// package initialiser: a global whose initial value is out of
			// reach (reflect.TypeFor, ...) keeps its zero value and is
			// recorded; the remaining globals are still initialised.
			fr.env[instr] = m.initCall(fr, instr, fn, args)
		} else {
			fr.env[instr] = m.call(fr, fn, args)
		}

	case *ssa.ChangeInterface:
		fr.env[instr] = fr.get(instr.X)

	case *ssa.ChangeType:
		fr.env[instr] = fr.get(instr.X)

	case *ssa.Convert:
		fr.env[instr] = m.conv(instr.Type(), instr.X.Type(), fr.get(instr.X))

	case *ssa.MultiConvert:
		fr.env[instr] = m.conv(instr.Type(), instr.X.Type(), fr.get(instr.X))

	case *ssa.SliceToArrayPointer:
		s := fr.get(instr.X).(Slice)
		n := int(deref(instr.Type()).Underlying().(*types.Array).Len())
		if len(s.a) < n {
			m.goPanic("runtime error: cannot convert slice to array pointer: slice too short")
		}
		if s.a == nil {
			fr.env[instr] = Ptr{}
		} else {
			// a pointer to an array sharing the slice's storage
			fr.env[instr] = Ptr{obj: s.obj, arr: s.a[:n:n], p: nil, fld: -2}
		}

	case *ssa.MakeInterface:
		fr.env[instr] = Iface{t: instr.X.Type(), v: fr.get(instr.X)}

	case *ssa.Extract:
		fr.env[instr] = fr.get(instr.Tuple).(Tuple)[instr.Index]

	case *ssa.Slice:
		fr.env[instr] = m.sliceOp(fr, instr)

	case *ssa.Return:
		switch len(instr.Results) {
		case 0:
			fr.result = nil
		case 1:
			fr.result = fr.get(instr.Results[0])
		default:
			res := make(Tuple, len(instr.Results))
			for i, r := range instr.Results {
				res[i] = fr.get(r)
			}
			fr.result = res
		}
		fr.block = nil
		return kReturn

	case *ssa.RunDefers:
		fr.runDefers()

	case *ssa.Panic:
		panic(&targetPanic{v: fr.get(instr.X), where: m.where(fr, instr)})

	case *ssa.Send:
		m.chanSend(fr, fr.get(instr.Chan).(*Chan), fr.get(instr.X))

	case *ssa.Store:
		m.store(fr.get(instr.Addr).(Ptr), fr.get(instr.Val))

	case *ssa.If:
		c := fr.get(instr.Cond).(*Term)
		if !c.IsConst() && !m.Opts.NoRegion {
			if m.tryRegion(fr, instr, c) {
				return kJump
			}
		}
		succ := 1
		if m.branch(c, m.where(fr, instr)) {
			succ = 0
		}
		fr.prevBlock, fr.block = fr.block, fr.block.Succs[succ]
		return kJump

	case *ssa.Jump:
		fr.prevBlock, fr.block = fr.block, fr.block.Succs[0]
		return kJump

	case *ssa.Defer:
		fn, args := m.prepareCall(fr, &instr.Call)
		target := fr
		if instr.DeferStack != nil {
			if ds, ok := fr.get(instr.DeferStack).(*deferStack); ok && ds != nil {
				target = ds.fr
			}
		}
		target.defers = &deferred{fn: fn, args: args, instr: instr, tail: target.defers}

	case *ssa.Go:
		fn, args := m.prepareCall(fr, &instr.Call)
		m.goStmt(fr, fn, args)

	case *ssa.MakeChan:
		n := m.concreteInt(fr.get(instr.Size).(*Term), "channel size")
		fr.env[instr] = m.newChan(int(n))

	case *ssa.Alloc:
		t := deref(instr.Type())
		if instr.Heap {
			fr.env[instr] = m.alloc(t, "new")
		} else {
			p := fr.env[instr].(Ptr)
			*p.p = m.zero(t)
		}

	case *ssa.MakeSlice:
		ln := m.concreteInt(fr.get(instr.Len).(*Term), "make len")
		cp := m.concreteInt(fr.get(instr.Cap).(*Term), "make cap")
		if ln < 0 || cp < ln || cp > 1<<24 {
			m.goPanic("runtime error: makeslice: len out of range")
		}
		et := instr.Type().Underlying().(*types.Slice).Elem()
		fr.env[instr] = m.makeSlice(et, int(ln), int(cp))

	case *ssa.MakeMap:
		fr.env[instr] = &Map{obj: m.newObj("map"), keyT: instr.Type().Underlying().(*types.Map).Key()}

	case *ssa.Range:
		fr.env[instr] = m.rangeIter(fr.get(instr.X))

	case *ssa.Next:
		fr.env[instr] = m.iterNext(fr.get(instr.Iter), instr)

	case *ssa.FieldAddr:
		x := fr.get(instr.X).(Ptr)
		fr.env[instr] = m.fieldAddr(x, instr.Field, deref(instr.X.Type()).Underlying().(*types.Struct))

	case *ssa.Field:
		fr.env[instr] = fr.get(instr.X).(Struct)[instr.Field]

	case *ssa.IndexAddr:
		fr.env[instr] = m.indexAddr(fr, instr)

	case *ssa.Index:
		fr.env[instr] = m.indexOp(fr, instr)

	case *ssa.Lookup:
		fr.env[instr] = m.lookup(fr, instr)

	case *ssa.MapUpdate:
		mp := fr.get(instr.Map).(*Map)
		if mp == nil {
			m.goPanic("assignment to entry in nil map")
		}
		m.mapUpdate(mp, fr.get(instr.Key), fr.get(instr.Value))

	case *ssa.TypeAssert:
		fr.env[instr] = m.typeAssert(instr, fr.get(instr.X).(Iface))

	case *ssa.MakeClosure:
		var bindings []value
		for _, b := range instr.Bindings {
			bindings = append(bindings, fr.get(b))
		}
		fr.env[instr] = &Closure{fn: instr.Fn.(*ssa.Function), env: bindings}

	case *ssa.Select:
		fr.env[instr] = m.selectStmt(fr, instr)

	case *ssa.Phi:
		panic("phi reached in exec")

	default:
		m.unsupported("instruction %T", instr)
	}
	return kNext
}

func (m *Machine) fieldAddr(x Ptr, field int, st *types.Struct) Ptr {
	if x.bad != "" {
		m.goPanic("runtime error: invalid memory address (unsafe pointer arithmetic: " + x.bad + ")")
	}
	if x.p == nil && x.idx != nil {
		// fork over the feasible element indexes
		i := m.concretize(x.idx, "element index for field address")
		x = Ptr{obj: x.obj, p: &x.arr[i], arr: x.arr[i:]}
	}
	if x.p == nil {
		m.goPanic("runtime error: invalid memory address or nil pointer dereference")
	}
	s, ok := (*x.p).(Struct)
	if !ok {
		panic(fmt.Sprintf("fieldAddr: slot holds %T, want Struct", *x.p))
	}
	up := x
	return Ptr{obj: x.obj, p: &s[field], up: &up, fld: field, upT: st}
}

func (m *Machine) makeSlice(et types.Type, ln, cp int) Slice {
	a := make([]value, cp)
	for i := range a {
		a[i] = m.zero(et)
	}
	return Slice{obj: m.newObj("slice"), a: a[:ln]}
}

// boundsCheck forks on a symbolic in-range condition and panics on the
// out-of-range side.
func (m *Machine) boundsCheck(idx *Term, n int, what string) {
	var ok *Term
	if m.intMode && idx.sort == SortInt {
		ok = m.tt.And(m.tt.ICmp(OpILe, m.tt.Int(0), idx), m.tt.ICmp(OpILt, idx, m.tt.Int(int64(n))))
	} else {
		ok = m.tt.Cmp(OpULt, idx, m.tt.BV(idx.sort, uint64(n)))
	}
	if !m.branch(ok, what) {
		m.goPanic(fmt.Sprintf("runtime error: index out of range [sym] with length %d", n))
	}
}

// arrayOf returns the element storage designated by an array pointer.
func (m *Machine) arrayOf(p Ptr) []value {
	if p.fld == -2 && p.p == nil && p.arr != nil {
		return p.arr
	}
	if p.p == nil {
		if p.isNil() {
			m.goPanic("runtime error: invalid memory address or nil pointer dereference")
		}
		if p.bad != "" {
			m.goPanic("runtime error: invalid memory address (unsafe pointer arithmetic: " + p.bad + ")")
		}
		m.unsupported("array access through element pointer")
	}
	a, ok := (*p.p).(Array)
	if !ok {
		panic(fmt.Sprintf("arrayOf: slot holds %T", *p.p))
	}
	return a
}

func (m *Machine) indexAddr(fr *frame, instr *ssa.IndexAddr) value {
	x := fr.get(instr.X)
	idx := m.toIndexTerm(fr.get(instr.Index).(*Term), instr.Index.Type())
	var arr []value
	var obj *Obj
	switch x := x.(type) {
	case Slice:
		arr, obj = x.a, x.obj
	case Ptr:
		arr, obj = m.arrayOf(x), x.obj
	default:
		panic(fmt.Sprintf("indexAddr on %T", x))
	}
	if idx.IsConst() {
		i := idx.SConst()
		if i < 0 || i >= int64(len(arr)) {
			m.goPanic(fmt.Sprintf("runtime error: index out of range [%d] with length %d", i, len(arr)))
		}
		return Ptr{obj: obj, p: &arr[i], arr: arr[i:]}
	}
	m.boundsCheck(idx, len(arr), m.where(fr, instr))
	if len(arr) == 1 {
		return Ptr{obj: obj, p: &arr[0], arr: arr}
	}
	return Ptr{obj: obj, arr: arr, idx: idx}
}

// toIndexTerm normalises an index of any integer type to a 64-bit term
// (sign- or zero-extended according to its type).
func (m *Machine) toIndexTerm(t *Term, typ types.Type) *Term {
	if t.sort == SortInt || t.sort == 64 {
		return t
	}
	if isSigned(typ) {
		return m.tt.SExt(t, 64)
	}
	return m.tt.ZExt(t, 64)
}

func (m *Machine) indexOp(fr *frame, instr *ssa.Index) value {
	x := fr.get(instr.X)
	idx := m.toIndexTerm(fr.get(instr.Index).(*Term), instr.Index.Type())
	switch x := x.(type) {
	case Array:
		if idx.IsConst() {
			i := idx.SConst()
			if i < 0 || i >= int64(len(x)) {
				m.goPanic(fmt.Sprintf("runtime error: index out of range [%d] with length %d", i, len(x)))
			}
			return copyVal(x[i])
		}
		m.boundsCheck(idx, len(x), m.where(fr, instr))
		return m.selectElem(x, idx)
	case Str:
		return m.strIndex(x, idx, m.where(fr, instr))
	}
	panic(fmt.Sprintf("indexOp on %T", x))
}

func (m *Machine) strIndex(x Str, idx *Term, where string) value {
	n := x.Len()
	if idx.IsConst() {
		i := idx.SConst()
		if i < 0 || i >= int64(n) {
			m.goPanic(fmt.Sprintf("runtime error: index out of range [%d] with length %d", i, n))
		}
		return m.strAt(x, int(i))
	}
	m.boundsCheck(idx, n, where)
	if n > 4096 {
		m.unsupported("symbolic index into string of length %d", n)
	}
	r := m.strAt(x, n-1)
	for i := n - 2; i >= 0; i-- {
		r = m.tt.Ite(m.tt.Eq(idx, m.tt.BV(idx.sort, uint64(i))), m.strAt(x, i), r)
	}
	return r
}

func (m *Machine) sliceOp(fr *frame, instr *ssa.Slice) value {
	x := fr.get(instr.X)
	getBound := func(v ssa.Value, def int64, what string) int64 {
		if v == nil {
			return def
		}
		t := fr.get(v).(*Term)
		return m.concreteIntT(t, v.Type(), what+" at "+m.where(fr, instr))
	}
	switch x := x.(type) {
	case Str:
		n := int64(x.Len())
		lo := getBound(instr.Low, 0, "string slice low bound")
		hi := getBound(instr.High, n, "string slice high bound")
		if lo < 0 || hi < lo || hi > n {
			m.goPanic(fmt.Sprintf("runtime error: slice bounds out of range [%d:%d] with length %d", lo, hi, n))
		}
		return m.strSlice(x, int(lo), int(hi))
	case Slice:
		c := int64(cap(x.a))
		lo := getBound(instr.Low, 0, "slice low bound")
		hi := getBound(instr.High, int64(len(x.a)), "slice high bound")
		mx := getBound(instr.Max, c, "slice max bound")
		if lo < 0 || hi < lo || mx < hi || mx > c {
			m.goPanic(fmt.Sprintf("runtime error: slice bounds out of range [%d:%d:%d] with capacity %d", lo, hi, mx, c))
		}
		if x.a == nil {
			return Slice{}
		}
		return Slice{obj: x.obj, a: x.a[lo:hi:mx]}
	case Ptr: // *array
		arr := m.arrayOf(x)
		c := int64(len(arr))
		lo := getBound(instr.Low, 0, "slice low bound")
		hi := getBound(instr.High, c, "slice high bound")
		mx := getBound(instr.Max, c, "slice max bound")
		if lo < 0 || hi < lo || mx < hi || mx > c {
			m.goPanic(fmt.Sprintf("runtime error: slice bounds out of range [%d:%d:%d] with capacity %d", lo, hi, mx, c))
		}
		return Slice{obj: x.obj, a: arr[lo:hi:mx]}
	}
	panic(fmt.Sprintf("sliceOp on %T", x))
}

func (m *Machine) typeAssert(instr *ssa.TypeAssert, x Iface) value {
	var ok bool
	var v value
	if it, isIface := instr.AssertedType.Underlying().(*types.Interface); isIface {
		if x.t != nil && types.Implements(x.t, it) {
			ok = true
			v = x
		}
	} else if x.t != nil && types.Identical(x.t, instr.AssertedType) {
		ok = true
		v = x.v
	}
	if instr.CommaOk {
		if !ok {
			v = m.zero(instr.AssertedType)
		}
		return Tuple{v, m.tt.Bool(ok)}
	}
	if !ok {
		desc := "nil"
		if x.t != nil {
			desc = x.t.String()
		}
		m.goPanic(fmt.Sprintf("interface conversion: interface is %s, not %s", desc, instr.AssertedType))
	}
	return v
}

// ---- unary / binary operators ----

func (m *Machine) unop(fr *frame, instr *ssa.UnOp, x value) value {
	switch instr.Op {
	case token.MUL:
		return m.load(x.(Ptr))
	case token.NOT:
		return m.tt.Not(x.(*Term))
	case token.SUB:
		switch x := x.(type) {
		case *Term:
			if x.sort == SortInt {
				return m.wrapInt(m.tt.IBin(OpISub, m.tt.Int(0), x), instr.Type())
			}
			return m.tt.Un(OpNeg, x)
		case float64:
			return -x
		case complex128:
			return -x
		}
	case token.XOR:
		t := x.(*Term)
		if t.sort == SortInt {
			m.unsupported("bitwise complement in int-mode")
		}
		return m.tt.Un(OpBNot, t)
	case token.ARROW:
		v, ok := m.chanRecv(fr, x.(*Chan), deref2chanElem(instr.X.Type()))
		if instr.CommaOk {
			return Tuple{v, m.tt.Bool(ok)}
		}
		return v
	}
	panic(fmt.Sprintf("unop %s on %T", instr.Op, x))
}

func deref2chanElem(t types.Type) types.Type {
	return t.Underlying().(*types.Chan).Elem()
}

func (m *Machine) binop(op token.Token, t types.Type, x, y value, yt types.Type) value {
	switch x := x.(type) {
	case *Term:
		yv, ok := y.(*Term)
		if !ok {
			panic(fmt.Sprintf("binop %s: term vs %T", op, y))
		}
		if x.sort == SortBool {
			switch op {
			case token.EQL:
				return m.tt.Eq(x, yv)
			case token.NEQ:
				return m.tt.Not(m.tt.Eq(x, yv))
			case token.AND, token.LAND:
				return m.tt.And(x, yv)
			case token.OR, token.LOR:
				return m.tt.Or(x, yv)
			}
			panic("bool binop " + op.String())
		}
		if x.sort == SortInt || yv.sort == SortInt {
			return m.intBinop(op, t, x, yv, yt)
		}
		return m.bvBinop(op, t, x, yv, yt)
	case float64:
		y := y.(float64)
		f32 := false
		if b, ok := t.Underlying().(*types.Basic); ok && b.Kind() == types.Float32 {
			f32 = true
		}
		rnd := func(f float64) value {
			if f32 {
				return float64(float32(f))
			}
			return f
		}
		switch op {
		case token.ADD:
			return rnd(x + y)
		case token.SUB:
			return rnd(x - y)
		case token.MUL:
			return rnd(x * y)
		case token.QUO:
			return rnd(x / y)
		case token.EQL:
			return m.tt.Bool(x == y)
		case token.NEQ:
			return m.tt.Bool(x != y)
		case token.LSS:
			return m.tt.Bool(x < y)
		case token.LEQ:
			return m.tt.Bool(x <= y)
		case token.GTR:
			return m.tt.Bool(x > y)
		case token.GEQ:
			return m.tt.Bool(x >= y)
		}
	case havocFloat:
		m.unsupported("arithmetic on havocked float (policy havoc handles only the conversion result)")
	case Str:
		ys := y.(Str)
		switch op {
		case token.ADD:
			return m.strConcat(x, ys)
		case token.EQL:
			return m.strEq(x, ys)
		case token.NEQ:
			return m.tt.Not(m.strEq(x, ys))
		case token.LSS:
			return m.strLess(x, ys)
		case token.GTR:
			return m.strLess(ys, x)
		case token.LEQ:
			return m.tt.Not(m.strLess(ys, x))
		case token.GEQ:
			return m.tt.Not(m.strLess(x, ys))
		}
	case PtrInt:
		// uintptr arithmetic on a pointer-derived value
		switch op {
		case token.ADD, token.SUB:
			d, ok := y.(*Term)
			if ok && d.IsConst() {
				delta := d.SConst()
				if op == token.SUB {
					delta = -delta
				}
				return PtrInt{ptr: x.ptr, delta: x.delta + delta}
			}
		case token.EQL:
			return m.eqValue(t, x, y)
		case token.NEQ:
			return m.tt.Not(m.eqValue(t, x, y))
		}
		m.unsupported("uintptr arithmetic %s on pointer-derived value", op)
	}
	switch op {
	case token.EQL:
		return m.eqValue(t, x, y)
	case token.NEQ:
		return m.tt.Not(m.eqValue(t, x, y))
	}
	panic(fmt.Sprintf("binop %s on %T,%T", op, x, y))
}

func (m *Machine) bvBinop(op token.Token, t types.Type, x, y *Term, yt types.Type) value {
	signed := isSigned(t)
	tt := m.tt
	switch op {
	case token.ADD:
		return tt.Bin(OpAdd, x, y)
	case token.SUB:
		return tt.Bin(OpSub, x, y)
	case token.MUL:
		return tt.Bin(OpMul, x, y)
	case token.QUO, token.REM:
		nz := tt.Not(tt.Eq(y, tt.BV(y.sort, 0)))
		if !m.branch(nz, "division by zero check") {
			m.goPanic("runtime error: integer divide by zero")
		}
		switch {
		case op == token.QUO && signed:
			return tt.Bin(OpSDiv, x, y)
		case op == token.QUO:
			return tt.Bin(OpUDiv, x, y)
		case signed:
			return tt.Bin(OpSRem, x, y)
		default:
			return tt.Bin(OpURem, x, y)
		}
	case token.AND:
		return tt.Bin(OpBAnd, x, y)
	case token.OR:
		return tt.Bin(OpBOr, x, y)
	case token.XOR:
		return tt.Bin(OpBXor, x, y)
	case token.AND_NOT:
		return tt.Bin(OpBAnd, x, tt.Un(OpBNot, y))
	case token.SHL, token.SHR:
		// y may have a different width and signedness
		if isSigned(yt) {
			neg := tt.Cmp(OpSLt, y, tt.BV(y.sort, 0))
			if m.branch(neg, "negative shift count check") {
				m.goPanic("runtime error: negative shift amount")
			}
		}
		w := x.sort
		var cnt *Term
		var big *Term // count >= width
		big = tt.Cmp(OpULe, tt.BV(y.sort, uint64(w)), y)
		if y.sort < 8 {
			panic("shift count narrower than 8 bits")
		}
		switch {
		case y.sort == w:
			cnt = y
		case y.sort < w:
			cnt = tt.ZExt(y, w)
		default:
			cnt = tt.Extract(y, int(w)-1, 0)
		}
		var r *Term
		switch {
		case op == token.SHL:
			r = tt.Ite(big, tt.BV(w, 0), tt.Bin(OpShl, x, cnt))
		case signed:
			r = tt.Ite(big, tt.Bin(OpAShr, x, tt.BV(w, uint64(w)-1)), tt.Bin(OpAShr, x, cnt))
		default:
			r = tt.Ite(big, tt.BV(w, 0), tt.Bin(OpLShr, x, cnt))
		}
		return r
	case token.EQL:
		return tt.Eq(x, y)
	case token.NEQ:
		return tt.Not(tt.Eq(x, y))
	case token.LSS:
		if signed {
			return tt.Cmp(OpSLt, x, y)
		}
		return tt.Cmp(OpULt, x, y)
	case token.LEQ:
		if signed {
			return tt.Cmp(OpSLe, x, y)
		}
		return tt.Cmp(OpULe, x, y)
	case token.GTR:
		if signed {
			return tt.Cmp(OpSLt, y, x)
		}
		return tt.Cmp(OpULt, y, x)
	case token.GEQ:
		if signed {
			return tt.Cmp(OpSLe, y, x)
		}
		return tt.Cmp(OpULe, y, x)
	}
	panic("bvBinop " + op.String())
}

// ---- lookup / maps / iteration ----

func (m *Machine) lookup(fr *frame, instr *ssa.Lookup) value {
	x := fr.get(instr.X)
	switch x := x.(type) {
	case Str:
		idx := m.toIndexTerm(fr.get(instr.Index).(*Term), instr.Index.Type())
		return m.strIndex(x, idx, m.where(fr, instr))
	case *Map:
		vt := instr.X.Type().Underlying().(*types.Map).Elem()
		v, ok := m.mapLookup(x, fr.get(instr.Index), vt)
		if instr.CommaOk {
			return Tuple{v, ok}
		}
		return v
	}
	panic(fmt.Sprintf("lookup on %T", x))
}

// mapLookup finds key in mp. With symbolic keys it forks on equality with
// each present key.
func (m *Machine) mapLookup(mp *Map, key value, vt types.Type) (value, *Term) {
	if mp != nil {
		if m.sched != nil {
			m.sched.accessObj(mp.obj, false)
		}
		for i := range mp.entries {
			e := &mp.entries[i]
			if e.deleted {
				continue
			}
			eq := m.eqValue(mp.keyT, e.k, key)
			if eq.IsFalse() {
				continue
			}
			if eq.IsTrue() || m.branch(eq, "map key equality") {
				return copyVal(e.v), m.tt.True
			}
		}
	}
	return m.zero(vt), m.tt.False
}

func (m *Machine) mapNote(mp *Map) {
	if m.initing > 0 {
		return
	}
	if mp.obj == nil || mp.obj.stamp == 0 {
		saved := make([]mapEntry, len(mp.entries))
		copy(saved, mp.entries)
		m.undo = append(m.undo, undoRec{mp: mp, mo: saved, mn: mp.n})
	}
	if m.mergeDepth > 0 {
		base := m.mergeStampBase[len(m.mergeStampBase)-1]
		if mp.obj == nil || mp.obj.stamp <= base {
			panic(pathEnd{kind: endAbortMerge, msg: "write to pre-existing map"})
		}
	}
}

func (m *Machine) mapUpdate(mp *Map, key, v value) {
	if m.sched != nil {
		m.sched.accessObj(mp.obj, true)
	}
	m.mapNote(mp)
	for i := range mp.entries {
		e := &mp.entries[i]
		if e.deleted {
			continue
		}
		eq := m.eqValue(mp.keyT, e.k, key)
		if eq.IsFalse() {
			continue
		}
		if eq.IsTrue() || m.branch(eq, "map key equality") {
			e.v = copyVal(v)
			return
		}
	}
	mp.entries = append(mp.entries, mapEntry{k: copyVal(key), v: copyVal(v)})
	mp.n++
}

func (m *Machine) mapDelete(mp *Map, key value) {
	if mp == nil {
		return
	}
	if m.sched != nil {
		m.sched.accessObj(mp.obj, true)
	}
	m.mapNote(mp)
	for i := range mp.entries {
		e := &mp.entries[i]
		if e.deleted {
			continue
		}
		eq := m.eqValue(mp.keyT, e.k, key)
		if eq.IsFalse() {
			continue
		}
		if eq.IsTrue() || m.branch(eq, "map key equality") {
			// compact so that iteration order stays insertion order
			mp.entries = append(mp.entries[:i:i], mp.entries[i+1:]...)
			mp.n--
			return
		}
	}
}

type mapIter struct {
	mp      *Map
	entries []mapEntry // snapshot order
	i       int
}

type strIter struct {
	s Str
	i int
}

func (m *Machine) rangeIter(x value) value {
	switch x := x.(type) {
	case Str:
		return &strIter{s: x}
	case *Map:
		it := &mapIter{mp: x}
		if x != nil {
			if m.sched != nil {
				m.sched.accessObj(x.obj, false)
			}
			n := len(x.entries)
			it.entries = make([]mapEntry, 0, n)
			// iteration order is unspecified: start at a nondeterministic
			// rotation so that order dependence is visible.
			rot := 0
			if n > 1 && m.initing == 0 && m.mapOrderNondet {
				rot = m.choice(n, "map iteration start")
			}
			for i := 0; i < n; i++ {
				it.entries = append(it.entries, x.entries[(i+rot)%n])
			}
		}
		return it
	}
	panic(fmt.Sprintf("range over %T", x))
}

func (m *Machine) iterNext(it value, instr *ssa.Next) value {
	switch it := it.(type) {
	case *strIter:
		if it.i >= it.s.Len() {
			return Tuple{m.tt.False, m.intConst(types.Typ[types.Int], 0), m.intConst(types.Typ[types.Int32], 0)}
		}
		r, size := m.decodeRune(it.s, it.i)
		idx := m.intConst(types.Typ[types.Int], uint64(it.i))
		it.i += size
		return Tuple{m.tt.True, idx, r}
	case *mapIter:
		tup := instr.Type().(*types.Tuple)
		for it.i < len(it.entries) {
			e := it.entries[it.i]
			it.i++
			// entries deleted during iteration are skipped
			if it.mp != nil {
				found := false
				for j := range it.mp.entries {
					if &it.mp.entries[j] != nil && sameKeyIdentity(it.mp.entries[j].k, e.k) {
						found = true
						e.v = it.mp.entries[j].v
						break
					}
				}
				if !found {
					continue
				}
			}
			return Tuple{m.tt.True, copyVal(e.k), copyVal(e.v)}
		}
		var kz, vz value
		if _, ok := tup.At(1).Type().(*types.Basic); ok && tup.At(1).Type().(*types.Basic).Kind() == types.Invalid {
			kz = nil
		} else {
			kz = m.zeroOrNil(tup.At(1).Type())
		}
		vz = m.zeroOrNil(tup.At(2).Type())
		return Tuple{m.tt.False, kz, vz}
	}
	panic(fmt.Sprintf("next on %T", it))
}

func (m *Machine) zeroOrNil(t types.Type) value {
	if b, ok := t.(*types.Basic); ok && b.Kind() == types.Invalid {
		return nil
	}
	return m.zero(t)
}

// sameKeyIdentity compares keys structurally on identical term pointers
// (hash-consing makes equal terms pointer-equal).
func sameKeyIdentity(a, b value) bool {
	switch a := a.(type) {
	case *Term:
		bt, ok := b.(*Term)
		return ok && a == bt
	case Str:
		bs, ok := b.(Str)
		if !ok || a.Len() != bs.Len() {
			return false
		}
		if a.b == nil && bs.b == nil {
			return a.s == bs.s
		}
		for i := 0; i < a.Len(); i++ {
			var x, y *Term
			if a.b != nil {
				x = a.b[i]
			}
			if bs.b != nil {
				y = bs.b[i]
			}
			if x == nil || y == nil {
				var cx, cy byte
				if x == nil {
					cx = a.s[i]
				} else if x.IsConst() {
					cx = byte(x.val)
				} else {
					return false
				}
				if y == nil {
					cy = bs.s[i]
				} else if y.IsConst() {
					cy = byte(y.val)
				} else {
					return false
				}
				if cx != cy {
					return false
				}
				continue
			}
			if x != y {
				return false
			}
		}
		return true
	case Struct:
		bs, ok := b.(Struct)
		if !ok || len(a) != len(bs) {
			return false
		}
		for i := range a {
			if !sameKeyIdentity(a[i], bs[i]) {
				return false
			}
		}
		return true
	case Array:
		bs, ok := b.(Array)
		if !ok || len(a) != len(bs) {
			return false
		}
		for i := range a {
			if !sameKeyIdentity(a[i], bs[i]) {
				return false
			}
		}
		return true
	case Ptr:
		bp, ok := b.(Ptr)
		return ok && a.p == bp.p && a.idx == bp.idx && a.obj == bp.obj
	case Iface:
		bi, ok := b.(Iface)
		if !ok {
			return false
		}
		if a.t == nil || bi.t == nil {
			return a.t == nil && bi.t == nil
		}
		return types.Identical(a.t, bi.t) && sameKeyIdentity(a.v, bi.v)
	case float64:
		bf, ok := b.(float64)
		return ok && a == bf
	}
	return false
}

// decodeRune decodes the UTF-8 sequence starting at s[i]; for symbolic bytes
// it forks on the encoding class exactly as the Go run time decodes
// (invalid sequences yield U+FFFD, width 1).
func (m *Machine) decodeRune(s Str, i int) (*Term, int) {
	tt := m.tt
	rt := types.Typ[types.Int32]
	n := s.Len()
	b0 := m.strAt(s, i)
	mk := func(v uint64) *Term { return m.intConst(rt, v) }
	ext := func(b *Term) *Term {
		if m.intMode {
			m.unsupported("symbolic rune decoding in int-mode")
		}
		return tt.ZExt(b, 32)
	}
	if b0.IsConst() && b0.val < 0x80 {
		return mk(b0.val), 1
	}
	if m.branch(tt.Cmp(OpULt, b0, tt.BV(8, 0x80)), "utf8: ascii") {
		if m.intMode {
			m.unsupported("symbolic rune decoding in int-mode")
		}
		return ext(b0), 1
	}
	bad := func() (*Term, int) { return mk(0xFFFD), 1 }
	inRange := func(b *Term, lo, hi uint64) *Term {
		return tt.And(tt.Cmp(OpULe, tt.BV(8, lo), b), tt.Cmp(OpULe, b, tt.BV(8, hi)))
	}
	cont := func(b *Term) *Term { return inRange(b, 0x80, 0xBF) }
	low6 := func(b *Term) *Term { return tt.Bin(OpBAnd, ext(b), tt.BV(32, 0x3F)) }
	// All branches below are on one byte at a time so that the byte-domain
	// front solver decides them.
	// two-byte: C2..DF
	if m.branch(inRange(b0, 0xC2, 0xDF), "utf8: 2-byte lead") {
		if i+1 >= n {
			return bad()
		}
		b1 := m.strAt(s, i+1)
		if !m.branch(cont(b1), "utf8: continuation") {
			return bad()
		}
		r := tt.Bin(OpBOr, tt.Bin(OpShl, tt.Bin(OpBAnd, ext(b0), tt.BV(32, 0x1F)), tt.BV(32, 6)), low6(b1))
		return r, 2
	}
	// three-byte: E0..EF
	if m.branch(inRange(b0, 0xE0, 0xEF), "utf8: 3-byte lead") {
		if i+2 >= n {
			return bad()
		}
		b1, b2 := m.strAt(s, i+1), m.strAt(s, i+2)
		// second byte range depends on lead: E0: A0..BF, ED: 80..9F, else 80..BF
		lo, hi := uint64(0x80), uint64(0xBF)
		if m.branch(tt.Eq(b0, tt.BV(8, 0xE0)), "utf8: lead E0") {
			lo = 0xA0
		} else if m.branch(tt.Eq(b0, tt.BV(8, 0xED)), "utf8: lead ED") {
			hi = 0x9F
		}
		if !m.branch(inRange(b1, lo, hi), "utf8: continuation") {
			return bad()
		}
		if !m.branch(cont(b2), "utf8: continuation") {
			return bad()
		}
		r := tt.Bin(OpBOr, tt.Bin(OpBOr,
			tt.Bin(OpShl, tt.Bin(OpBAnd, ext(b0), tt.BV(32, 0x0F)), tt.BV(32, 12)),
			tt.Bin(OpShl, low6(b1), tt.BV(32, 6))), low6(b2))
		return r, 3
	}
	// four-byte: F0..F4
	if m.branch(inRange(b0, 0xF0, 0xF4), "utf8: 4-byte lead") {
		if i+3 >= n {
			return bad()
		}
		b1, b2, b3 := m.strAt(s, i+1), m.strAt(s, i+2), m.strAt(s, i+3)
		lo, hi := uint64(0x80), uint64(0xBF)
		if m.branch(tt.Eq(b0, tt.BV(8, 0xF0)), "utf8: lead F0") {
			lo = 0x90
		} else if m.branch(tt.Eq(b0, tt.BV(8, 0xF4)), "utf8: lead F4") {
			hi = 0x8F
		}
		if !m.branch(inRange(b1, lo, hi), "utf8: continuation") {
			return bad()
		}
		if !m.branch(cont(b2), "utf8: continuation") {
			return bad()
		}
		if !m.branch(cont(b3), "utf8: continuation") {
			return bad()
		}
		r := tt.Bin(OpBOr, tt.Bin(OpBOr, tt.Bin(OpBOr,
			tt.Bin(OpShl, tt.Bin(OpBAnd, ext(b0), tt.BV(32, 0x07)), tt.BV(32, 18)),
			tt.Bin(OpShl, low6(b1), tt.BV(32, 12))),
			tt.Bin(OpShl, low6(b2), tt.BV(32, 6))), low6(b3))
		return r, 4
	}
	return bad()
}

func (m *Machine) initCall(fr *frame, instr *ssa.Call, fn value, args []value) (res value) {
	defer func() {
		if r := recover(); r != nil {
			if pe, ok := r.(pathEnd); ok && pe.kind == endUnsupported {
				m.initProblems = append(m.initProblems, fr.fn.Pkg.Pkg.Path()+": "+pe.msg)
				res = m.zero(instr.Type())
				return
			}
			if tp, ok := r.(*targetPanic); ok {
				// typically a method call on the zero value left by an
				// earlier out-of-reach initialiser
				m.initProblems = append(m.initProblems, fr.fn.Pkg.Pkg.Path()+": panic "+tp.where)
				res = m.zero(instr.Type())
				return
			}
			panic(r)
		}
	}()
	return m.call(fr, fn, args)
}
