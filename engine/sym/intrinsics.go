package sym

import (
	"fmt"
	"go/types"
	"strings"

	"golang.org/x/tools/go/ssa"
)

type intrinsic func(m *Machine, caller *frame, fn *ssa.Function, args []value) value

var intrinsics map[string]intrinsic

func init() {
	intrinsics = map[string]intrinsic{
		// ---- internal/bytealg ----
		"internal/bytealg.IndexByteString":     inIndexByte,
		"internal/bytealg.IndexByte":           inIndexByte,
		"internal/bytealg.LastIndexByteString": inLastIndexByte,
		"internal/bytealg.LastIndexByte":       inLastIndexByte,
		"internal/bytealg.CountString":         inCount,
		"internal/bytealg.Count":               inCount,
		"internal/bytealg.Equal":               inEqual,
		"internal/bytealg.Compare":             inCompare,
		"internal/bytealg.CompareString":       inCompare,
		"internal/bytealg.MakeNoZero":          inMakeNoZero,
		"internal/bytealg.IndexString":         inIndex,
		"internal/bytealg.Index":               inIndex,
		"internal/bytealg.Cutover":             func(m *Machine, c *frame, fn *ssa.Function, a []value) value { return m.intVal(64) },
		"strings.Index":                        inIndex,
		"bytes.Index":                          inIndex,
		"internal/stringslite.Index":           inIndex,
		"strings.EqualFold":                    nil, // real code
		"strconv.FormatInt":                    inFormatInt,
		"strconv.FormatUint":                   inFormatInt,
		"strings.ToLower":                      inToLower,
		"strings.ToUpper":                      inToUpper,
		"internal/reflectlite.TypeOf": func(m *Machine, c *frame, fn *ssa.Function, a []value) value {
			m.unsupported("reflection (reflectlite.TypeOf)")
			return nil
		},
		"reflect.TypeOf": func(m *Machine, c *frame, fn *ssa.Function, a []value) value {
			m.unsupported("reflection (reflect.TypeOf)")
			return nil
		},
		"reflect.ValueOf": func(m *Machine, c *frame, fn *ssa.Function, a []value) value {
			m.unsupported("reflection (reflect.ValueOf)")
			return nil
		},
		"internal/abi.NoEscape":        func(m *Machine, c *frame, fn *ssa.Function, a []value) value { return a[0] },
		"internal/abi.Escape":          func(m *Machine, c *frame, fn *ssa.Function, a []value) value { return a[0] },
		"strings.(*Builder).copyCheck": inNop,
		"(*strings.Builder).copyCheck": inNop,
		"(*strings.Builder).String":    inBuilderString,
		"runtime.KeepAlive":            inNop,
		"internal/race.Enable":         inNop,
		"internal/race.Disable":        inNop,
		"internal/race.Acquire":        inNop,
		"internal/race.Release":        inNop,
		"internal/race.ReleaseMerge":   inNop,
		"internal/race.ReadRange":      inNop,
		"internal/race.WriteRange":     inNop,
		"internal/race.Read":           inNop,
		"internal/race.Write":          inNop,

		// ---- errors / fmt ----
		"errors.Is":     inErrorsIs,
		"errors.As":     inErrorsAs,
		"fmt.Errorf":    inErrorf,
		"fmt.Sprintf":   inSprintf,
		"fmt.Sprint":    inSprint,
		"fmt.Sprintln":  inSprint,
		"fmt.Fprintf":   inFprintf,
		"fmt.Fprint":    inFprintf,
		"fmt.Fprintln":  inFprintf,
		"fmt.Printf":    inFprintf,
		"fmt.Println":   inFprintf,
		"fmt.Print":     inFprintf,
		"strconv.Quote": inOpaqueString,
		// String() methods of address types are formatting (message texts):
		// opaque.  MarshalText/AppendTo stay real.
		"(net.IP).String":             inOpaqueString,
		"(net.IPMask).String":         inOpaqueString,
		"(*net.IPNet).String":         inOpaqueString,
		"(net.HardwareAddr).String":   inOpaqueString,
		"(net/netip.Addr).String":     inOpaqueString,
		"(net/netip.Prefix).String":   inOpaqueString,
		"(net/netip.AddrPort).String": inOpaqueString,
		"strconv.AppendQuote":         nil,

		// ---- unique ----
		// unique.Make / Handle.Value are generic: matched by prefix below.

		"maps.clone": inMapsClone,
		// encoding/json is reflection-driven; the string-token path used by
		// text marshalers is bridged to the real appendString / unquoteBytes
		"encoding/json.Marshal":   inJSONMarshal,
		"encoding/json.Unmarshal": inJSONUnmarshal,
		// logging: empty bodies
		"log/slog.Default":                                              inSlogDefault,
		"(*log/slog.Logger).With":                                       func(m *Machine, c *frame, fn *ssa.Function, a []value) value { return a[0] },
		"(*log/slog.Logger).WithGroup":                                  func(m *Machine, c *frame, fn *ssa.Function, a []value) value { return a[0] },
		"(*log/slog.Logger).Info":                                       inNop,
		"(*log/slog.Logger).InfoContext":                                inNop,
		"(*log/slog.Logger).Error":                                      inNop,
		"(*log/slog.Logger).ErrorContext":                               inNop,
		"(*log/slog.Logger).Warn":                                       inNop,
		"(*log/slog.Logger).WarnContext":                                inNop,
		"(*log/slog.Logger).Debug":                                      inNop,
		"(*log/slog.Logger).DebugContext":                               inNop,
		"(*log/slog.Logger).Log":                                        inNop,
		"(*log/slog.Logger).LogAttrs":                                   inNop,
		"(*log/slog.Logger).Enabled":                                    func(m *Machine, c *frame, fn *ssa.Function, a []value) value { return m.tt.False },
		"github.com/AdguardTeam/golibs/logutil/slogutil.PrintRecovered": inNop,
		"github.com/AdguardTeam/golibs/log.Debug":                       inNop,
		"github.com/AdguardTeam/golibs/log.Info":                        inNop,
		"github.com/AdguardTeam/golibs/log.Error":                       inNop,
		"github.com/AdguardTeam/golibs/log.Printf":                      inNop,
		// context.WithTimeout/WithCancel: the real ones start runtime timers
		// and goroutines; the stub returns the parent and a no-op cancel
		"context.WithTimeout":   inCtxWithCancel,
		"context.WithDeadline":  inCtxWithCancel,
		"context.WithCancel":    inCtxWithCancel,
		"context.Background":    nil,
		"slices.overlaps":       inSlicesOverlaps,
		"unique.Make":           inUniqueMake,
		"(unique.Handle).Value": inUniqueValue,

		// ---- math ----
		"math.Float64bits":     inFloat64bits,
		"math.Float64frombits": inFloat64frombits,
		"math.Float32bits":     inFloat32bits,
		"math.Float32frombits": inFloat32frombits,

		// ---- time ----
		"time.Now":   inTimeNow,
		"time.now":   inTimeNow,
		"time.Since": nil,
		"time.runtimeNano": func(m *Machine, c *frame, fn *ssa.Function, a []value) value {
			return m.intConst(types.Typ[types.Int64], 0)
		},

		// ---- runtime bits ----
		"runtime.Callers":                           func(m *Machine, c *frame, fn *ssa.Function, a []value) value { return m.intVal(0) },
		"runtime.GOMAXPROCS":                        func(m *Machine, c *frame, fn *ssa.Function, a []value) value { return m.intVal(1) },
		"internal/godebug.New":                      nil,
		"(*internal/godebug.Setting).Value":         func(m *Machine, c *frame, fn *ssa.Function, a []value) value { return Str{} },
		"(*internal/godebug.Setting).IncNonDefault": inNop,
		"(*internal/godebug.Setting).Name":          func(m *Machine, c *frame, fn *ssa.Function, a []value) value { return Str{} },
	}
	for k, v := range intrinsics {
		if v == nil {
			delete(intrinsics, k)
		}
	}
	registerVerifrt()
	registerSync()
}

func (m *Machine) lookupIntrinsic(fn *ssa.Function) intrinsic {
	name := fn.String()
	if h, ok := intrinsics[name]; ok {
		m.noteIntrinsic(name)
		return h
	}
	// generic instantiations: strip type arguments
	if i := strings.IndexByte(name, '['); i >= 0 {
		base := name[:i]
		if j := strings.LastIndexByte(name, ']'); j >= 0 && j+1 <= len(name) {
			base += name[j+1:]
		}
		if h, ok := intrinsics[base]; ok {
			m.noteIntrinsic(base)
			return h
		}
	}
	if o := fn.Origin(); o != nil && o != fn {
		if h, ok := intrinsics[o.String()]; ok {
			m.noteIntrinsic(o.String())
			return h
		}
	}
	return nil
}

func (m *Machine) noteIntrinsic(name string) {
	if m.initing == 0 {
		m.intrinsicsUsed[name]++
	}
}

func inNop(m *Machine, c *frame, fn *ssa.Function, a []value) value { return nil }

// seqOf views a string or byte slice argument as a term sequence.
func (m *Machine) seqOf(v value) []*Term {
	switch v := v.(type) {
	case Str:
		return m.strBytes(v)
	case Slice:
		out := make([]*Term, len(v.a))
		for i, e := range v.a {
			out[i] = e.(*Term)
		}
		return out
	}
	panic(fmt.Sprintf("seqOf %T", v))
}

func inIndexByte(m *Machine, c *frame, fn *ssa.Function, a []value) value {
	s := m.seqOf(a[0])
	b := a[1].(*Term)
	for i, x := range s {
		if m.branch(m.tt.Eq(x, b), "IndexByte") {
			return m.intVal(int64(i))
		}
	}
	return m.intVal(-1)
}

func inLastIndexByte(m *Machine, c *frame, fn *ssa.Function, a []value) value {
	s := m.seqOf(a[0])
	b := a[1].(*Term)
	for i := len(s) - 1; i >= 0; i-- {
		if m.branch(m.tt.Eq(s[i], b), "LastIndexByte") {
			return m.intVal(int64(i))
		}
	}
	return m.intVal(-1)
}

func inCount(m *Machine, c *frame, fn *ssa.Function, a []value) value {
	s := m.seqOf(a[0])
	b := a[1].(*Term)
	n := 0
	for _, x := range s {
		if m.branch(m.tt.Eq(x, b), "Count") {
			n++
		}
	}
	return m.intVal(int64(n))
}

func (m *Machine) seqEq(x, y []*Term) *Term {
	if len(x) != len(y) {
		return m.tt.False
	}
	r := m.tt.True
	for i := range x {
		r = m.tt.And(r, m.tt.Eq(x[i], y[i]))
	}
	return r
}

func inEqual(m *Machine, c *frame, fn *ssa.Function, a []value) value {
	return m.seqEq(m.seqOf(a[0]), m.seqOf(a[1]))
}

func inCompare(m *Machine, c *frame, fn *ssa.Function, a []value) value {
	x, y := m.seqOf(a[0]), m.seqOf(a[1])
	n := min(len(x), len(y))
	for i := 0; i < n; i++ {
		if m.branch(m.tt.Eq(x[i], y[i]), "Compare") {
			continue
		}
		if m.branch(m.tt.Cmp(OpULt, x[i], y[i]), "Compare") {
			return m.intVal(-1)
		}
		return m.intVal(1)
	}
	switch {
	case len(x) < len(y):
		return m.intVal(-1)
	case len(x) > len(y):
		return m.intVal(1)
	}
	return m.intVal(0)
}

func inMakeNoZero(m *Machine, c *frame, fn *ssa.Function, a []value) value {
	n := m.concreteInt(a[0].(*Term), "MakeNoZero")
	return m.makeSlice(types.Typ[types.Byte], int(n), int(n))
}

// inIndex: first index of sub in s.
func inIndex(m *Machine, c *frame, fn *ssa.Function, a []value) value {
	s, sub := m.seqOf(a[0]), m.seqOf(a[1])
	if len(sub) == 0 {
		return m.intVal(0)
	}
	for i := 0; i+len(sub) <= len(s); i++ {
		if m.branch(m.seqEq(s[i:i+len(sub)], sub), "Index") {
			return m.intVal(int64(i))
		}
	}
	return m.intVal(-1)
}

func inBuilderString(m *Machine, c *frame, fn *ssa.Function, a []value) value {
	b := m.load(a[0].(Ptr)).(Struct)
	// struct { addr *Builder; buf []byte }
	buf := b[1].(Slice)
	out := make([]*Term, len(buf.a))
	for i, e := range buf.a {
		out[i] = e.(*Term)
	}
	return strFromTerms(out)
}

// ---- errors ----

// errorChain walks Unwrap chains of an error value calling visit; visit
// returns true to stop.
func (m *Machine) errorWalk(caller *frame, err Iface, visit func(Iface) bool) bool {
	if err.t == nil {
		return false
	}
	if visit(err) {
		return true
	}
	// Unwrap() error
	if f := m.lookupMethodByName(err.t, "Unwrap"); f != nil {
		res := f.Signature.Results()
		if res.Len() == 1 {
			out := m.call(caller, f, []value{err.v})
			switch o := out.(type) {
			case Iface:
				return m.errorWalk(caller, o, visit)
			case Slice:
				for _, e := range o.a {
					if m.errorWalk(caller, e.(Iface), visit) {
						return true
					}
				}
			}
		}
	}
	return false
}

func (m *Machine) lookupMethodByName(t types.Type, name string) *ssa.Function {
	ms := m.P.Prog.MethodSets.MethodSet(t)
	for i := 0; i < ms.Len(); i++ {
		sel := ms.At(i)
		if sel.Obj().Name() == name && sel.Obj().Exported() {
			return m.P.Prog.MethodValue(sel)
		}
	}
	return nil
}

func inErrorsIs(m *Machine, c *frame, fn *ssa.Function, a []value) value {
	err, target := a[0].(Iface), a[1].(Iface)
	if err.t == nil || target.t == nil {
		return m.tt.Bool(err.t == nil && target.t == nil)
	}
	comparable := types.Comparable(target.t)
	found := m.errorWalk(c, err, func(e Iface) bool {
		if comparable && types.Identical(e.t, target.t) {
			eq := m.eqValue(e.t, e.v, target.v)
			if m.branch(eq, "errors.Is equality") {
				return true
			}
		}
		if f := m.lookupMethodByName(e.t, "Is"); f != nil && f.Signature.Params().Len() == 1 {
			r := m.call(c, f, []value{e.v, target})
			if t, ok := r.(*Term); ok && m.branch(t, "errors.Is method") {
				return true
			}
		}
		return false
	})
	return m.tt.Bool(found)
}

func inErrorsAs(m *Machine, c *frame, fn *ssa.Function, a []value) value {
	err, target := a[0].(Iface), a[1].(Iface)
	if target.t == nil {
		m.goPanic("errors: target cannot be nil")
	}
	pt, ok := target.t.Underlying().(*types.Pointer)
	if !ok {
		m.goPanic("errors: target must be a non-nil pointer")
	}
	tp := target.v.(Ptr)
	if tp.isNil() {
		m.goPanic("errors: target must be a non-nil pointer")
	}
	want := pt.Elem()
	_, wantIface := want.Underlying().(*types.Interface)
	found := m.errorWalk(c, err, func(e Iface) bool {
		if wantIface {
			if types.Implements(e.t, want.Underlying().(*types.Interface)) {
				m.store(tp, e)
				return true
			}
		} else if types.Identical(e.t, want) {
			m.store(tp, e.v)
			return true
		}
		if f := m.lookupMethodByName(e.t, "As"); f != nil && f.Signature.Params().Len() == 1 {
			r := m.call(c, f, []value{e.v, target})
			if t, ok := r.(*Term); ok && m.branch(t, "errors.As method") {
				return true
			}
		}
		return false
	})
	return m.tt.Bool(found)
}

// opaqueText is the content of every formatted message: message texts are
// outside all claims.
const opaqueText = "<formatted>"

func (m *Machine) namedType(pkg, name string) types.Type {
	sp := m.P.SSAPkgs[pkg]
	if sp == nil {
		return nil
	}
	if t := sp.Type(name); t != nil {
		return t.Type()
	}
	return nil
}

// inErrorf: fmt.Errorf(format, args...).  With %w operands the result is a
// real *fmt.wrapError / *fmt.wrapErrors so Unwrap/Is/As work; otherwise a
// *fmt.wrapError-free *errors.errorString.
func inErrorf(m *Machine, c *frame, fn *ssa.Function, a []value) value {
	format, _ := a[0].(Str).concrete()
	args := a[1].(Slice)
	var wrapped []Iface
	if strings.Contains(format, "%w") {
		// operands matching %w verbs, in order of verbs (approximation: the
		// n-th verb consumes the n-th operand)
		argi := 0
		for i := 0; i < len(format); i++ {
			if format[i] != '%' {
				continue
			}
			j := i + 1
			for j < len(format) && strings.IndexByte("+-# 0123456789.[]*", format[j]) >= 0 {
				j++
			}
			if j >= len(format) {
				break
			}
			if format[j] == '%' {
				i = j
				continue
			}
			if format[j] == 'w' && argi < len(args.a) {
				if e, ok := args.a[argi].(Iface); ok && e.t != nil {
					wrapped = append(wrapped, e)
				}
			}
			argi++
			i = j
		}
	}
	msg := mkStr(opaqueText)
	switch len(wrapped) {
	case 0:
		t := m.namedType("errors", "errorString")
		if t == nil {
			m.unsupported("errors.errorString not loaded")
		}
		p := m.alloc(t, "errorString")
		*p.p = Struct{msg}
		return Iface{t: types.NewPointer(t), v: p}
	case 1:
		t := m.namedType("fmt", "wrapError")
		if t == nil {
			m.unsupported("fmt.wrapError not loaded")
		}
		p := m.alloc(t, "wrapError")
		*p.p = Struct{msg, wrapped[0]}
		return Iface{t: types.NewPointer(t), v: p}
	default:
		t := m.namedType("fmt", "wrapErrors")
		if t == nil {
			m.unsupported("fmt.wrapErrors not loaded")
		}
		p := m.alloc(t, "wrapErrors")
		errs := make([]value, len(wrapped))
		for i, w := range wrapped {
			errs[i] = w
		}
		*p.p = Struct{msg, Slice{obj: m.newObj("errs"), a: errs}}
		return Iface{t: types.NewPointer(t), v: p}
	}
}

func inSprintf(m *Machine, c *frame, fn *ssa.Function, a []value) value { return mkStr(opaqueText) }
func inSprint(m *Machine, c *frame, fn *ssa.Function, a []value) value  { return mkStr(opaqueText) }
func inOpaqueString(m *Machine, c *frame, fn *ssa.Function, a []value) value {
	if m.Opts.RealAddrString && fn.Pkg != nil && fn.Pkg.Pkg.Path() == "net/netip" {
		// the harness depends on the text (e.g. a codec that formats an
		// address): run the real formatter
		return m.callBody(c, fn, a)
	}
	return mkStr(opaqueText)
}
func inFprintf(m *Machine, c *frame, fn *ssa.Function, a []value) value {
	return Tuple{m.intVal(0), Iface{}}
}

// ---- math ----

func inFloat64bits(m *Machine, c *frame, fn *ssa.Function, a []value) value {
	f, ok := a[0].(float64)
	if !ok {
		m.unsupported("Float64bits of non-concrete float")
	}
	return m.intConst(types.Typ[types.Uint64], mathFloat64bits(f))
}
func inFloat64frombits(m *Machine, c *frame, fn *ssa.Function, a []value) value {
	t := a[0].(*Term)
	if !t.IsConst() {
		m.unsupported("Float64frombits of symbolic bits")
	}
	return mathFloat64frombits(t.Const())
}
func inFloat32bits(m *Machine, c *frame, fn *ssa.Function, a []value) value {
	f, ok := a[0].(float64)
	if !ok {
		m.unsupported("Float32bits of non-concrete float")
	}
	return m.intConst(types.Typ[types.Uint32], uint64(mathFloat32bits(float32(f))))
}
func inFloat32frombits(m *Machine, c *frame, fn *ssa.Function, a []value) value {
	t := a[0].(*Term)
	if !t.IsConst() {
		m.unsupported("Float32frombits of symbolic bits")
	}
	return float64(mathFloat32frombits(uint32(t.Const())))
}

func inTimeNow(m *Machine, c *frame, fn *ssa.Function, a []value) value {
	m.unsupported("time.Now (inject a clock in the harness)")
	return nil
}

// ---- unique ----

type uniqueEntry struct {
	t   types.Type
	v   value
	ptr Ptr
}

func inUniqueMake(m *Machine, c *frame, fn *ssa.Function, a []value) value {
	t := fn.Signature.Params().At(0).Type()
	for _, e := range m.uniques {
		if !types.Identical(e.t, t) {
			continue
		}
		eq := m.eqValue(t, e.v, a[0])
		if eq.IsFalse() {
			continue
		}
		if eq.IsTrue() || m.branch(eq, "unique.Make interning") {
			return Struct{e.ptr}
		}
	}
	p := m.alloc(t, "unique")
	*p.p = copyVal(a[0])
	m.uniques = append(m.uniques, uniqueEntry{t: t, v: copyVal(a[0]), ptr: p})
	if m.initing > 0 {
		m.uniquesInit = len(m.uniques)
	}
	return Struct{p}
}

func inUniqueValue(m *Machine, c *frame, fn *ssa.Function, a []value) value {
	h := a[0].(Struct)
	return m.load(h[0].(Ptr))
}

// ---- validated models ----

// strings.ToLower / ToUpper on all-ASCII input are modelled byte-wise
// (ite on the letter range) so that the result bytes stay single-variable
// terms; as soon as one byte may be non-ASCII the real code runs on that
// path.  The model is validated against the real SSA body by the
// VerifModel* harnesses (run with Options.NoModels).
func inToLower(m *Machine, c *frame, fn *ssa.Function, a []value) value {
	return m.caseModel(c, fn, a, 'A', 'Z', 32)
}

func inToUpper(m *Machine, c *frame, fn *ssa.Function, a []value) value {
	return m.caseModel(c, fn, a, 'a', 'z', ^uint64(31)) // -32 mod 256
}

func (m *Machine) caseModel(c *frame, fn *ssa.Function, a []value, lo, hi byte, delta uint64) value {
	s := a[0].(Str)
	if m.Opts.NoModels {
		return m.callBody(c, fn, a)
	}
	if s.b == nil {
		// concrete: run the real code concretely
		return m.callBody(c, fn, a)
	}
	for i := 0; i < s.Len(); i++ {
		if !m.branch(m.tt.Cmp(OpULt, m.strAt(s, i), m.tt.BV(8, 0x80)), "ToLower/ToUpper model: ASCII byte") {
			return m.callBody(c, fn, a)
		}
	}
	out := make([]*Term, s.Len())
	for i := range out {
		b := m.strAt(s, i)
		isL := m.tt.And(m.tt.Cmp(OpULe, m.tt.BV(8, uint64(lo)), b), m.tt.Cmp(OpULe, b, m.tt.BV(8, uint64(hi))))
		out[i] = m.tt.Ite(isL, m.tt.Bin(OpAdd, b, m.tt.BV(8, delta)), b)
	}
	return strFromTerms(out)
}

// callBody runs the real body of an intercepted function.
func (m *Machine) callBody(c *frame, fn *ssa.Function, a []value) value {
	m.bypass = fn
	defer func() { m.bypass = nil }()
	return m.callFunction(c, fn, a, nil)
}

// strconv.FormatInt/FormatUint(v, 10) for a symbolic v whose range is known
// to be within 0..999999: fork on the number of digits, digits as division
// terms.  (The real code slices a digit table with symbolic bounds, which
// would enumerate every value.)  Validated by VerifModelItoa.
func inFormatInt(m *Machine, c *frame, fn *ssa.Function, a []value) value {
	v := a[0].(*Term)
	base := a[1].(*Term)
	if m.Opts.NoModels || v.IsConst() || !base.IsConst() || base.Const() != 10 || v.sort != 64 {
		return m.callBody(c, fn, a)
	}
	e := &ivalEval{m: m, memo: map[int]ival{}, bmem: map[int]int8{}}
	iv := e.iv(v)
	if iv.hi > 999999 {
		return m.callBody(c, fn, a)
	}
	tt := m.tt
	nd := 1
	for lim := uint64(10); lim <= 100000; lim *= 10 {
		if m.branch(tt.Cmp(OpULt, v, tt.BV(64, lim)), "FormatInt model: digit count") {
			break
		}
		nd++
	}
	out := make([]*Term, nd)
	div := uint64(1)
	for i := nd - 1; i >= 0; i-- {
		d := tt.Bin(OpURem, tt.Bin(OpUDiv, v, tt.BV(64, div)), tt.BV(64, 10))
		out[i] = tt.Bin(OpAdd, tt.Extract(d, 7, 0), tt.BV(8, '0'))
		div *= 10
	}
	return strFromTerms(out)
}

// maps.clone (runtime linkname): a shallow copy of the map.
func inMapsClone(m *Machine, c *frame, fn *ssa.Function, a []value) value {
	it := a[0].(Iface)
	src, _ := it.v.(*Map)
	if src == nil {
		return Iface{t: it.t, v: (*Map)(nil)}
	}
	if m.sched != nil {
		m.sched.accessObj(src.obj, false)
	}
	dst := &Map{obj: m.newObj("map"), keyT: src.keyT, n: src.n}
	dst.entries = make([]mapEntry, len(src.entries))
	for i, e := range src.entries {
		dst.entries[i] = mapEntry{k: copyVal(e.k), v: copyVal(e.v)}
	}
	return Iface{t: it.t, v: dst}
}

// slices.overlaps: whether two slices share an element (the real code
// compares uintptr addresses).
func inSlicesOverlaps(m *Machine, c *frame, fn *ssa.Function, a []value) value {
	x, y := a[0].(Slice), a[1].(Slice)
	for i := range x.a {
		for j := range y.a {
			if &x.a[i] == &y.a[j] {
				return m.tt.True
			}
		}
	}
	return m.tt.False
}

func inSlogDefault(m *Machine, c *frame, fn *ssa.Function, a []value) value {
	t := m.namedType("log/slog", "Logger")
	if t == nil {
		m.unsupported("log/slog.Logger not loaded")
	}
	return m.alloc(t, "slog.Logger")
}

// nativeFunc is a function value implemented by the engine.
type nativeFunc struct {
	name string
	f    func(m *Machine, caller *frame, args []value) value
}

func inCtxWithCancel(m *Machine, c *frame, fn *ssa.Function, a []value) value {
	cancel := &nativeFunc{name: "context cancel (stub)", f: func(m *Machine, caller *frame, args []value) value { return nil }}
	return Tuple{a[0], cancel}
}

// ---- encoding/json bridge (string tokens only) ----

// jsonHelper finds a non-exported function or generic instance of
// encoding/json by scanning the callers named in via.
func (m *Machine) jsonHelper(name string, via ...string) *ssa.Function {
	pkg := m.P.SSAPkgs["encoding/json"]
	if pkg == nil {
		m.unsupported("encoding/json not loaded")
	}
	m.P.ensureBuilt(pkg)
	if f := pkg.Func(name); f != nil && len(via) == 0 {
		return f
	}
	for _, v := range via {
		caller := pkg.Func(v)
		if caller == nil {
			continue
		}
		for _, b := range caller.Blocks {
			for _, ins := range b.Instrs {
				if c, ok := ins.(*ssa.Call); ok {
					if callee := c.Call.StaticCallee(); callee != nil && strings.HasPrefix(callee.Name(), name+"[") {
						return callee
					}
				}
			}
		}
	}
	m.unsupported("encoding/json.%s not found", name)
	return nil
}

func (m *Machine) opaqueError(what string) Iface {
	t := m.namedType("errors", "errorString")
	p := m.alloc(t, "errorString")
	*p.p = Struct{mkStr(what)}
	return Iface{t: types.NewPointer(t), v: p}
}

// inJSONMarshal: json.Marshal(v) for a v that implements
// encoding.TextMarshaler, or a string: the real appendString quotes the text
// (escapeHTML = true, as json.Marshal does).
func inJSONMarshal(m *Machine, c *frame, fn *ssa.Function, a []value) value {
	v := a[0].(Iface)
	if v.t == nil {
		return Tuple{Slice{obj: m.newObj("json"), a: []value{m.tt.BV(8, 'n'), m.tt.BV(8, 'u'), m.tt.BV(8, 'l'), m.tt.BV(8, 'l')}}, Iface{}}
	}
	var text value
	if isString(v.t) {
		text = v.v
	} else if mt := m.lookupMethodByName(v.t, "MarshalText"); mt != nil {
		r := m.call(c, mt, []value{v.v}).(Tuple)
		if e := r[1].(Iface); e.t != nil {
			return Tuple{Slice{}, e}
		}
		text = r[0]
	} else {
		m.unsupported("json.Marshal of %s (only strings and encoding.TextMarshaler values are bridged)", v.t)
	}
	var app *ssa.Function
	if _, isStr := text.(Str); isStr {
		app = m.jsonHelper("appendString", "stringEncoder")
	} else {
		app = m.jsonHelper("appendString", "textMarshalerEncoder", "addrTextMarshalerEncoder")
	}
	out := m.callFunction(c, app, []value{Slice{}, text, m.tt.True}, nil)
	return Tuple{out, Iface{}}
}

// inJSONUnmarshal: json.Unmarshal(data, v) for string tokens: into *string
// through the real unquoteBytes, or into a json.Unmarshaler through its
// UnmarshalJSON method (after the same validity check).
func inJSONUnmarshal(m *Machine, c *frame, fn *ssa.Function, a []value) value {
	data := a[0].(Slice)
	v := a[1].(Iface)
	if v.t == nil {
		return m.opaqueError("json: Unmarshal(nil)")
	}
	pt, ok := v.t.Underlying().(*types.Pointer)
	if !ok || v.v.(Ptr).isNil() {
		return m.opaqueError("json: Unmarshal(non-pointer)")
	}
	if len(data.a) == 0 {
		return m.opaqueError("unexpected end of JSON input")
	}
	first := data.a[0].(*Term)
	if !m.branch(m.tt.Eq(first, m.tt.BV(8, '"')), "json.Unmarshal: string token") {
		m.unsupported("json.Unmarshal of a non-string token (reflection-driven decoding is not bridged)")
	}
	unq := m.jsonHelper("unquoteBytes")
	r := m.callFunction(c, unq, []value{data}, nil).(Tuple)
	if !m.branch(r[1].(*Term), "json.Unmarshal: valid string token") {
		return m.opaqueError("invalid character in string literal")
	}
	if um := m.lookupMethodByName(v.t, "UnmarshalJSON"); um != nil {
		return m.call(c, um, []value{v.v, data})
	}
	if isString(pt.Elem()) {
		t := r[0].(Slice)
		b := make([]*Term, len(t.a))
		for i, e := range t.a {
			b[i] = e.(*Term)
		}
		m.store(v.v.(Ptr), strFromTerms(b))
		return Iface{}
	}
	m.unsupported("json.Unmarshal into %s (only *string and json.Unmarshaler targets are bridged)", v.t)
	return nil
}
