package sym

import (
	"go/token"
	"go/types"
	"math"
)

func mathFloat64bits(f float64) uint64     { return math.Float64bits(f) }
func mathFloat64frombits(b uint64) float64 { return math.Float64frombits(b) }
func mathFloat32bits(f float32) uint32     { return math.Float32bits(f) }
func mathFloat32frombits(b uint32) float32 { return math.Float32frombits(b) }

// ---- int-mode (mathematical integers with explicit wrapping) ----

func (m *Machine) intBinop(op token.Token, t types.Type, x, y *Term, yt types.Type) value {
	m.unsupported("int-mode arithmetic not available")
	return nil
}

func (m *Machine) wrapInt(t *Term, typ types.Type) *Term {
	m.unsupported("int-mode arithmetic not available")
	return nil
}

func (m *Machine) wrapIntFrom(t *Term, src, dst types.Type) *Term {
	m.unsupported("int-mode arithmetic not available")
	return nil
}

func (m *Machine) freshIntVar(t types.Type, what string) *Term {
	m.unsupported("int-mode arithmetic not available")
	return nil
}
