package sym

import (
	"fmt"
	"go/types"

	"golang.org/x/tools/go/ssa"
)

const verifrtPath = "github.com/AdguardTeam/golibs/internal/verifrt"

func registerVerifrt() {
	reg := func(name string, h intrinsic) { intrinsics[verifrtPath+"."+name] = h }
	scalar := func(k types.BasicKind) intrinsic {
		return func(m *Machine, c *frame, fn *ssa.Function, a []value) value {
			t := types.Typ[k]
			if m.intMode {
				return m.freshIntVar(t, fn.Name())
			}
			return m.freshVar(intWidth(t), fn.Name())
		}
	}
	reg("Byte", scalar(types.Uint8))
	reg("Uint16", scalar(types.Uint16))
	reg("Uint32", scalar(types.Uint32))
	reg("Uint64", scalar(types.Uint64))
	reg("Int", scalar(types.Int))
	reg("Int64", scalar(types.Int64))
	reg("Int32", scalar(types.Int32))
	reg("Bool", func(m *Machine, c *frame, fn *ssa.Function, a []value) value {
		v := m.freshVar(8, "Bool")
		return m.tt.Not(m.tt.Eq(v, m.tt.BV(8, 0)))
	})
	reg("Len", func(m *Machine, c *frame, fn *ssa.Function, a []value) value {
		mx := int(m.concreteInt(a[0].(*Term), "Len bound"))
		k := m.choice(mx+1, "Len")
		m.noteConcreteDraw(uint64(k), "Len")
		return m.intVal(int64(k))
	})
	reg("Choice", func(m *Machine, c *frame, fn *ssa.Function, a []value) value {
		n := int(m.concreteInt(a[0].(*Term), "Choice bound"))
		k := m.choice(n, "Choice")
		m.noteConcreteDraw(uint64(k), "Choice")
		return m.intVal(int64(k))
	})
	reg("Bool2", func(m *Machine, c *frame, fn *ssa.Function, a []value) value {
		k := m.choice(2, "Bool2")
		m.noteConcreteDraw(uint64(k), "Bool2")
		return m.tt.Bool(k == 1)
	})
	reg("Bytes", func(m *Machine, c *frame, fn *ssa.Function, a []value) value {
		n := int(m.concreteInt(a[0].(*Term), "Bytes length"))
		arr := make([]value, n)
		for i := range arr {
			arr[i] = m.freshVar(8, "Bytes")
		}
		return Slice{obj: m.newObj("nondet bytes"), a: arr}
	})
	reg("String", func(m *Machine, c *frame, fn *ssa.Function, a []value) value {
		n := int(m.concreteInt(a[0].(*Term), "String length"))
		b := make([]*Term, n)
		for i := range b {
			b[i] = m.freshVar(8, "String")
		}
		return Str{b: b}
	})
	reg("Assume", func(m *Machine, c *frame, fn *ssa.Function, a []value) value {
		m.assume(a[0].(*Term))
		return nil
	})
	reg("Assert", func(m *Machine, c *frame, fn *ssa.Function, a []value) value {
		msg, _ := a[1].(Str).concrete()
		where := "?"
		if c != nil {
			where = c.fn.String()
		}
		m.assertHolds(a[0].(*Term), msg, where)
		return nil
	})
	reg("Cover", func(m *Machine, c *frame, fn *ssa.Function, a []value) value {
		label, _ := a[0].(Str).concrete()
		if m.mergeDepth > 0 {
			panic(pathEnd{kind: endAbortMerge, msg: "cover inside merged call"})
		}
		m.noteCover(label)
		return nil
	})
	reg("Known", func(m *Machine, c *frame, fn *ssa.Function, a []value) value {
		key, _ := a[0].(Str).concrete()
		if m.branch(a[1].(*Term), "known-finding predicate "+key) {
			m.knownKey = key
		}
		return nil
	})
	reg("ObserveInt", func(m *Machine, c *frame, fn *ssa.Function, a []value) value {
		label, _ := a[0].(Str).concrete()
		m.observes = append(m.observes, observation{label, a[1]})
		return nil
	})
	reg("ObserveBool", func(m *Machine, c *frame, fn *ssa.Function, a []value) value {
		label, _ := a[0].(Str).concrete()
		m.observes = append(m.observes, observation{label, a[1]})
		return nil
	})
	reg("ObserveString", func(m *Machine, c *frame, fn *ssa.Function, a []value) value {
		label, _ := a[0].(Str).concrete()
		m.observes = append(m.observes, observation{label, a[1]})
		return nil
	})
	reg("ObserveBytes", func(m *Machine, c *frame, fn *ssa.Function, a []value) value {
		label, _ := a[0].(Str).concrete()
		s := a[1].(Slice)
		b := make([]*Term, len(s.a))
		for i, e := range s.a {
			b[i] = e.(*Term)
		}
		m.observes = append(m.observes, observation{label, strFromTerms(b)})
		return nil
	})
	reg("Thorough", func(m *Machine, c *frame, fn *ssa.Function, a []value) value {
		return m.tt.Bool(m.Opts.Thorough)
	})
	reg("Symbolic", func(m *Machine, c *frame, fn *ssa.Function, a []value) value {
		return m.tt.True
	})
	reg("NoMerge", func(m *Machine, c *frame, fn *ssa.Function, a []value) value {
		return nil
	})
	reg("Quiesce", func(m *Machine, c *frame, fn *ssa.Function, a []value) value {
		if m.sched != nil {
			m.sched.quiesce()
		}
		return nil
	})
	reg("Yield", func(m *Machine, c *frame, fn *ssa.Function, a []value) value {
		if m.sched != nil {
			m.sched.yield(c, "Yield")
		}
		return nil
	})
}

func (m *Machine) noteConcreteDraw(v uint64, what string) {
	m.draws = append(m.draws, draw{varIdx: -1, val: v, what: what})
}

func (m *Machine) noteCover(label string) {
	m.pathCovers = append(m.pathCovers, label)
}

// observationDigest renders the observations of the current path under a
// model, in the format the native runtime produces.
func (m *Machine) observationDigest(mod Model) []string {
	ev := NewEvaluator(mod)
	var out []string
	for _, o := range m.observes {
		switch v := o.v.(type) {
		case *Term:
			switch {
			case v.sort == SortBool:
				out = append(out, fmt.Sprintf("%s=%v", o.label, ev.Eval(v) == 1))
			case v.sort == SortInt:
				out = append(out, fmt.Sprintf("%s=%d", o.label, int64(ev.Eval(v))))
			default:
				out = append(out, fmt.Sprintf("%s=%d", o.label, sext(ev.Eval(v), v.sort)))
			}
		case Str:
			bs := make([]byte, v.Len())
			for i := range bs {
				bs[i] = byte(ev.Eval(m.strAt(v, i)))
			}
			out = append(out, fmt.Sprintf("%s=%q", o.label, string(bs)))
		default:
			out = append(out, fmt.Sprintf("%s=?%T", o.label, v))
		}
	}
	return out
}
