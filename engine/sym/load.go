package sym

import (
	"fmt"
	"go/types"
	"os"
	"path/filepath"
	"sort"
	"strings"
	"sync"

	"golang.org/x/tools/go/packages"
	"golang.org/x/tools/go/ssa"
	"golang.org/x/tools/go/ssa/ssautil"
)

// Program is the loaded SSA program, shared read-only between machines.
type Program struct {
	Prog    *ssa.Program
	Pkgs    []*packages.Package
	SSAPkgs map[string]*ssa.Package // by import path
	Sizes   types.Sizes
	Overlay map[string][]byte
	RepoDir string

	mu        sync.Mutex
	built     map[*ssa.Package]bool
	regions   sync.Map // *ssa.If -> *region (or nil)
	LoadTimeS float64
}

// LoadConfig describes what to load.
type LoadConfig struct {
	RepoDir  string
	Patterns []string          // e.g. ./netutil
	Overlay  map[string]string // virtual path -> real file path
	Tags     string
}

func Load(cfg LoadConfig) (*Program, error) {
	overlay := map[string][]byte{}
	for virt, real := range cfg.Overlay {
		b, err := os.ReadFile(real)
		if err != nil {
			return nil, err
		}
		overlay[virt] = b
	}
	env := []string{}
	for _, e := range os.Environ() {
		if strings.HasPrefix(e, "GOSUMDB=") || strings.HasPrefix(e, "GOTOOLCHAIN=") || strings.HasPrefix(e, "GOFLAGS=") || strings.HasPrefix(e, "GOPROXY=") {
			continue
		}
		env = append(env, e)
	}
	env = append(env, "GOFLAGS=-mod=mod", "GOPROXY=off", "GOTOOLCHAIN=auto")
	pcfg := &packages.Config{
		Mode:       packages.LoadAllSyntax,
		Dir:        cfg.RepoDir,
		Env:        env,
		Overlay:    overlay,
		BuildFlags: []string{"-tags=" + cfg.Tags},
		Tests:      false,
	}
	pkgs, err := packages.Load(pcfg, cfg.Patterns...)
	if err != nil {
		return nil, fmt.Errorf("packages.Load: %w", err)
	}
	var errs []string
	packages.Visit(pkgs, nil, func(p *packages.Package) {
		for _, e := range p.Errors {
			errs = append(errs, e.Error())
		}
	})
	if len(errs) > 0 {
		sort.Strings(errs)
		if len(errs) > 20 {
			errs = errs[:20]
		}
		return nil, fmt.Errorf("load errors:\n%s", strings.Join(errs, "\n"))
	}
	prog, _ := ssautil.AllPackages(pkgs, ssa.InstantiateGenerics|ssa.SanityCheckFunctions*0)
	p := &Program{
		Prog:    prog,
		Pkgs:    pkgs,
		SSAPkgs: map[string]*ssa.Package{},
		Sizes:   types.SizesFor("gc", "amd64"),
		Overlay: overlay,
		RepoDir: cfg.RepoDir,
		built:   map[*ssa.Package]bool{},
	}
	for _, sp := range prog.AllPackages() {
		p.SSAPkgs[sp.Pkg.Path()] = sp
	}
	return p, nil
}

// ensureBuilt builds the SSA bodies of fn's package (lazily, once).
func (p *Program) ensureBuilt(pkg *ssa.Package) {
	if pkg == nil {
		return
	}
	p.mu.Lock()
	defer p.mu.Unlock()
	if !p.built[pkg] {
		pkg.Build()
		p.built[pkg] = true
	}
}

func (p *Program) Func(pkgPath, name string) *ssa.Function {
	sp := p.SSAPkgs[pkgPath]
	if sp == nil {
		return nil
	}
	p.ensureBuilt(sp)
	return sp.Func(name)
}

// pkgOf returns the package that owns fn (following instantiation origin and
// closure parents).
func pkgOf(fn *ssa.Function) *ssa.Package {
	for fn != nil {
		if fn.Pkg != nil {
			return fn.Pkg
		}
		if o := fn.Origin(); o != nil && o != fn {
			fn = o
			continue
		}
		if fn.Parent() != nil {
			fn = fn.Parent()
			continue
		}
		break
	}
	return nil
}

// RelPath shortens an absolute path for reports.
func RelPath(p string) string {
	if r, err := filepath.Rel("/", p); err == nil {
		return "/" + r
	}
	return p
}
