package sym

import (
	"go/types"
	"strings"

	"golang.org/x/tools/go/ssa"
)

// syncState is the engine-side state of a sync object, keyed by the address of
// the object's first slot.
type syncState struct {
	locked  bool
	readers int
	owner   int
	vc      vclock
	count   int // WaitGroup counter
	// sync.Map
	entries []mapEntry
	// sync.Pool
	pooled []value
}

func (m *Machine) syncOf(p Ptr) *syncState {
	p = m.elemPtr(p)
	if p.p == nil {
		m.goPanic("runtime error: invalid memory address or nil pointer dereference (sync object)")
	}
	if m.syncStates == nil {
		m.syncStates = map[*value]*syncState{}
	}
	st := m.syncStates[p.p]
	if st == nil {
		st = &syncState{}
		m.syncStates[p.p] = st
	}
	return st
}

func (m *Machine) syncPoint(c *frame, what string) *scheduler {
	if m.mergeDepth > 0 {
		panic(pathEnd{kind: endAbortMerge, msg: "synchronisation inside merged call"})
	}
	if m.initing > 0 {
		// package initialisers run outside of the schedule
		return nil
	}
	if m.sched != nil {
		// bookkeeping atomics of the harness itself are not scheduling
		// points (they still create happens-before edges)
		if c != nil && isHarnessFunc(c.fn) && strings.HasPrefix(what, "atomic") {
			return m.sched
		}
		m.sched.yield(c, what)
	}
	return m.sched
}

// elemPtr turns a symbolic element pointer into a concrete one by forking
// over the feasible indexes.
func (m *Machine) elemPtr(p Ptr) Ptr {
	if p.p == nil && p.idx != nil {
		i := m.concretize(p.idx, "element index of a synchronisation object")
		return Ptr{obj: p.obj, p: &p.arr[i], arr: p.arr[i:]}
	}
	return p
}

func registerSync() {
	lock := func(m *Machine, c *frame, fn *ssa.Function, a []value) value {
		s := m.syncPoint(c, "Mutex.Lock")
		st := m.syncOf(a[0].(Ptr))
		if st.locked || st.readers > 0 {
			if s == nil {
				mod := m.ensureModel()
				m.recordViolation("deadlock: Lock of a locked mutex with no other goroutine", fn.String(), mod, false)
				panic(pathEnd{kind: endViolation, msg: "self-deadlock"})
			}
			m.curG.waitFn = func() bool { return !st.locked && st.readers == 0 }
			s.block("Mutex.Lock")
			m.curG.waitFn = nil
		}
		st.locked = true
		if s != nil {
			s.acquire(&st.vc)
		}
		return nil
	}
	unlock := func(m *Machine, c *frame, fn *ssa.Function, a []value) value {
		s := m.syncPoint(c, "Mutex.Unlock")
		st := m.syncOf(a[0].(Ptr))
		if !st.locked {
			m.goPanic("fatal error: sync: unlock of unlocked mutex")
		}
		st.locked = false
		if s != nil {
			s.release(&st.vc)
		}
		return nil
	}
	tryLock := func(m *Machine, c *frame, fn *ssa.Function, a []value) value {
		s := m.syncPoint(c, "Mutex.TryLock")
		st := m.syncOf(a[0].(Ptr))
		if st.locked || st.readers > 0 {
			return m.tt.False
		}
		st.locked = true
		if s != nil {
			s.acquire(&st.vc)
		}
		return m.tt.True
	}
	rlock := func(m *Machine, c *frame, fn *ssa.Function, a []value) value {
		s := m.syncPoint(c, "RWMutex.RLock")
		st := m.syncOf(a[0].(Ptr))
		if st.locked {
			if s == nil {
				mod := m.ensureModel()
				m.recordViolation("deadlock: RLock of a write-locked mutex with no other goroutine", fn.String(), mod, false)
				panic(pathEnd{kind: endViolation, msg: "self-deadlock"})
			}
			m.curG.waitFn = func() bool { return !st.locked }
			s.block("RWMutex.RLock")
			m.curG.waitFn = nil
		}
		st.readers++
		if s != nil {
			s.acquire(&st.vc)
		}
		return nil
	}
	runlock := func(m *Machine, c *frame, fn *ssa.Function, a []value) value {
		s := m.syncPoint(c, "RWMutex.RUnlock")
		st := m.syncOf(a[0].(Ptr))
		if st.readers == 0 {
			m.goPanic("fatal error: sync: RUnlock of unlocked RWMutex")
		}
		st.readers--
		if s != nil {
			s.release(&st.vc)
		}
		return nil
	}
	intrinsics["(*sync.Mutex).Lock"] = lock
	intrinsics["(*sync.Mutex).Unlock"] = unlock
	intrinsics["(*sync.Mutex).TryLock"] = tryLock
	intrinsics["(*sync.RWMutex).Lock"] = lock
	intrinsics["(*sync.RWMutex).Unlock"] = unlock
	intrinsics["(*sync.RWMutex).RLock"] = rlock
	intrinsics["(*sync.RWMutex).RUnlock"] = runlock
	intrinsics["(*internal/sync.Mutex).Lock"] = lock
	intrinsics["(*internal/sync.Mutex).Unlock"] = unlock
	intrinsics["(*internal/sync.Mutex).TryLock"] = tryLock

	// ---- atomics ----
	atomicOp := func(kind string) intrinsic {
		return func(m *Machine, c *frame, fn *ssa.Function, a []value) value {
			s := m.syncPoint(c, "atomic "+kind)
			p := m.elemPtr(a[0].(Ptr))
			if p.p == nil {
				m.goPanic("runtime error: invalid memory address or nil pointer dereference (atomic)")
			}
			st := m.syncOf(p)
			// atomic accesses do not race with each other; they do with plain
			// accesses, which the detector sees through the shadow of the slot
			// (atomics skip the shadow).
			old := copyVal(*p.p)
			set := func(v value) {
				m.noteWrite(p.obj, p.p)
				*p.p = copyVal(v)
			}
			var ret value
			switch kind {
			case "load":
				ret = old
			case "store":
				set(a[1])
			case "add":
				nv := m.tt.Bin(OpAdd, old.(*Term), a[1].(*Term))
				set(nv)
				ret = nv
			case "swap":
				set(a[1])
				ret = old
			case "and":
				nv := m.tt.Bin(OpBAnd, old.(*Term), a[1].(*Term))
				set(nv)
				ret = old
			case "or":
				nv := m.tt.Bin(OpBOr, old.(*Term), a[1].(*Term))
				set(nv)
				ret = old
			case "cas":
				eq := m.eqValue(fn.Signature.Params().At(1).Type(), old, a[1])
				if m.branch(eq, "CompareAndSwap") {
					set(a[2])
					ret = m.tt.True
				} else {
					ret = m.tt.False
				}
			}
			if s != nil {
				s.acquire(&st.vc)
				s.release(&st.vc)
			}
			return ret
		}
	}
	for _, t := range []string{"Int32", "Int64", "Uint32", "Uint64", "Uintptr", "Pointer"} {
		intrinsics["sync/atomic.Load"+t] = atomicOp("load")
		intrinsics["sync/atomic.Store"+t] = atomicOp("store")
		intrinsics["sync/atomic.Add"+t] = atomicOp("add")
		intrinsics["sync/atomic.Swap"+t] = atomicOp("swap")
		intrinsics["sync/atomic.CompareAndSwap"+t] = atomicOp("cas")
		intrinsics["sync/atomic.And"+t] = atomicOp("and")
		intrinsics["sync/atomic.Or"+t] = atomicOp("or")
	}
	// sync/atomic.Value: the interface slot itself is the atomic cell (the
	// real code goes through unsafe efaceWords)
	valueOp := func(kind string) intrinsic {
		return func(m *Machine, c *frame, fn *ssa.Function, a []value) value {
			s := m.syncPoint(c, "atomic.Value "+kind)
			vp := a[0].(Ptr)
			st := fn.Signature.Recv().Type().(*types.Pointer).Elem().Underlying().(*types.Struct)
			p := m.fieldAddr(vp, 0, st)
			sy := m.syncOf(p)
			old := copyVal(*p.p)
			set := func(v value) {
				if v.(Iface).t == nil {
					m.goPanic("sync/atomic: store of nil value into Value")
				}
				if o := old.(Iface); o.t != nil && !types.Identical(o.t, v.(Iface).t) {
					m.goPanic("sync/atomic: store of inconsistently typed value into Value")
				}
				m.noteWrite(p.obj, p.p)
				*p.p = copyVal(v)
			}
			var ret value
			switch kind {
			case "load":
				ret = old
			case "store":
				set(a[1])
			case "swap":
				set(a[1])
				ret = old
			case "cas":
				eq := m.eqValue(types.NewInterfaceType(nil, nil), old, a[1])
				if m.branch(eq, "Value.CompareAndSwap") {
					set(a[2])
					ret = m.tt.True
				} else {
					ret = m.tt.False
				}
			}
			if s != nil {
				s.acquire(&sy.vc)
				s.release(&sy.vc)
			}
			return ret
		}
	}
	intrinsics["(*sync/atomic.Value).Load"] = valueOp("load")
	intrinsics["(*sync/atomic.Value).Store"] = valueOp("store")
	intrinsics["(*sync/atomic.Value).Swap"] = valueOp("swap")
	intrinsics["(*sync/atomic.Value).CompareAndSwap"] = valueOp("cas")

	// internal/runtime/atomic used by some std code
	for _, t := range []string{"", "64", "Uintptr", "Uint8"} {
		intrinsics["internal/runtime/atomic.Load"+t] = atomicOp("load")
		intrinsics["internal/runtime/atomic.Store"+t] = atomicOp("store")
		intrinsics["internal/runtime/atomic.Xadd"+t] = atomicOp("add")
		intrinsics["internal/runtime/atomic.Cas"+t] = atomicOp("cas")
	}

	// ---- WaitGroup ----
	intrinsics["(*sync.WaitGroup).Add"] = func(m *Machine, c *frame, fn *ssa.Function, a []value) value {
		s := m.syncPoint(c, "WaitGroup.Add")
		st := m.syncOf(a[0].(Ptr))
		d := m.concreteInt(a[1].(*Term), "WaitGroup delta")
		st.count += int(d)
		if st.count < 0 {
			m.goPanic("sync: negative WaitGroup counter")
		}
		if s != nil {
			s.release(&st.vc)
		}
		return nil
	}
	intrinsics["(*sync.WaitGroup).Done"] = func(m *Machine, c *frame, fn *ssa.Function, a []value) value {
		s := m.syncPoint(c, "WaitGroup.Done")
		st := m.syncOf(a[0].(Ptr))
		st.count--
		if st.count < 0 {
			m.goPanic("sync: negative WaitGroup counter")
		}
		if s != nil {
			s.release(&st.vc)
		}
		return nil
	}
	intrinsics["(*sync.WaitGroup).Wait"] = func(m *Machine, c *frame, fn *ssa.Function, a []value) value {
		s := m.syncPoint(c, "WaitGroup.Wait")
		st := m.syncOf(a[0].(Ptr))
		if st.count > 0 {
			if s == nil {
				mod := m.ensureModel()
				m.recordViolation("deadlock: WaitGroup.Wait with no other goroutine", fn.String(), mod, false)
				panic(pathEnd{kind: endViolation, msg: "deadlock"})
			}
			m.curG.waitFn = func() bool { return st.count == 0 }
			s.block("WaitGroup.Wait")
			m.curG.waitFn = nil
		}
		if s != nil {
			s.acquire(&st.vc)
		}
		return nil
	}

	// ---- sync.Map (atomic association list) ----
	anyT := types.NewInterfaceType(nil, nil)
	mapFind := func(m *Machine, st *syncState, key value) int {
		for i := range st.entries {
			eq := m.eqValue(anyT, st.entries[i].k, key)
			if eq.IsFalse() {
				continue
			}
			if eq.IsTrue() || m.branch(eq, "sync.Map key equality") {
				return i
			}
		}
		return -1
	}
	syncMapOp := func(kind string) intrinsic {
		return func(m *Machine, c *frame, fn *ssa.Function, a []value) value {
			s := m.syncPoint(c, "sync.Map."+kind)
			st := m.syncOf(a[0].(Ptr))
			defer func() {
				if s != nil {
					s.acquire(&st.vc)
					s.release(&st.vc)
				}
			}()
			switch kind {
			case "Load":
				if i := mapFind(m, st, a[1]); i >= 0 {
					return Tuple{st.entries[i].v, m.tt.True}
				}
				return Tuple{Iface{}, m.tt.False}
			case "Store":
				if i := mapFind(m, st, a[1]); i >= 0 {
					st.entries[i].v = a[2]
				} else {
					st.entries = append(st.entries, mapEntry{k: a[1], v: a[2]})
				}
				return nil
			case "LoadOrStore":
				if i := mapFind(m, st, a[1]); i >= 0 {
					return Tuple{st.entries[i].v, m.tt.True}
				}
				st.entries = append(st.entries, mapEntry{k: a[1], v: a[2]})
				return Tuple{a[2], m.tt.False}
			case "LoadAndDelete":
				if i := mapFind(m, st, a[1]); i >= 0 {
					v := st.entries[i].v
					st.entries = append(st.entries[:i:i], st.entries[i+1:]...)
					return Tuple{v, m.tt.True}
				}
				return Tuple{Iface{}, m.tt.False}
			case "Delete":
				if i := mapFind(m, st, a[1]); i >= 0 {
					st.entries = append(st.entries[:i:i], st.entries[i+1:]...)
				}
				return nil
			case "Swap":
				if i := mapFind(m, st, a[1]); i >= 0 {
					old := st.entries[i].v
					st.entries[i].v = a[2]
					return Tuple{old, m.tt.True}
				}
				st.entries = append(st.entries, mapEntry{k: a[1], v: a[2]})
				return Tuple{Iface{}, m.tt.False}
			case "Clear":
				st.entries = nil
				return nil
			}
			m.unsupported("sync.Map." + kind)
			return nil
		}
	}
	for _, k := range []string{"Load", "Store", "LoadOrStore", "LoadAndDelete", "Delete", "Swap", "Clear"} {
		intrinsics["(*sync.Map)."+k] = syncMapOp(k)
	}
	intrinsics["(*sync.Map).Range"] = func(m *Machine, c *frame, fn *ssa.Function, a []value) value {
		m.syncPoint(c, "sync.Map.Range")
		st := m.syncOf(a[0].(Ptr))
		snap := append([]mapEntry(nil), st.entries...)
		for _, e := range snap {
			r := m.call(c, a[1], []value{e.k, e.v})
			if !m.branch(r.(*Term), "sync.Map.Range continue") {
				break
			}
		}
		return nil
	}

	// ---- sync.Pool ----
	intrinsics["(*sync.Pool).Get"] = func(m *Machine, c *frame, fn *ssa.Function, a []value) value {
		s := m.syncPoint(c, "Pool.Get")
		p := a[0].(Ptr)
		st := m.syncOf(p)
		// any previously Put object, or a new one
		k := m.choice(len(st.pooled)+1, "Pool.Get choice")
		if k < len(st.pooled) {
			v := st.pooled[k]
			st.pooled = append(st.pooled[:k:k], st.pooled[k+1:]...)
			if s != nil {
				s.acquire(&st.vc)
			}
			return v
		}
		pool := (*p.p).(Struct)
		newFn := pool[len(pool)-1]
		if isNilFunc(newFn) {
			return Iface{}
		}
		return m.call(c, newFn, nil)
	}
	intrinsics["(*sync.Pool).Put"] = func(m *Machine, c *frame, fn *ssa.Function, a []value) value {
		s := m.syncPoint(c, "Pool.Put")
		st := m.syncOf(a[0].(Ptr))
		if x, ok := a[1].(Iface); ok && x.t == nil {
			return nil
		}
		st.pooled = append(st.pooled, a[1])
		if s != nil {
			s.release(&st.vc)
		}
		return nil
	}
	intrinsics["close"] = nil
	delete(intrinsics, "close")
}
