package sym

import (
	"bufio"
	"fmt"
	"io"
	"os"
	"os/exec"
	"strconv"
	"strings"
	"sync"
	"time"
)

// Result of a check-sat.
type Result int

const (
	Unsat Result = iota
	Sat
	Unknown
)

func (r Result) String() string { return [...]string{"unsat", "sat", "unknown"}[r] }

// Solver drives one SMT solver process over a pipe.
type Solver struct {
	Kind      string     // "z3", "z3-new", "cvc5"
	TT        *TermTable // for compact definitions of single-variable terms
	TimeoutMS int
	Seed      int
	cmd       *exec.Cmd
	in        *bufio.Writer
	out       *linePump
	gen       int
	depth     int
	declared  map[*Term]bool // variables declared in this generation
	Stats     SolverStats
	log       io.Writer
	sawError  bool
	frames    [][]*Term // local assertion stack; frames[0] is the base level
	sentLits  []int     // per frame: number of literals already sent
	sentDepth int       // frames 1..sentDepth are pushed in the solver
}

type SolverStats struct {
	Sat, Unsat, Unknown int
	Time                time.Duration
	Errors              int
	Restarts            int
}

func NewSolver(kind string, timeoutMS, seed int) (*Solver, error) {
	s := &Solver{Kind: kind, TimeoutMS: timeoutMS, Seed: seed}
	if p := os.Getenv("GOSYM_SMTLOG"); p != "" {
		f, err := os.OpenFile(p, os.O_CREATE|os.O_WRONLY|os.O_APPEND, 0o644)
		if err == nil {
			s.log = f
		}
	}
	if err := s.start(); err != nil {
		return nil, err
	}
	return s, nil
}

func (s *Solver) start() error {
	var cmd *exec.Cmd
	switch s.Kind {
	case "z3", "":
		cmd = exec.Command("/usr/bin/z3", "-in", "-smt2")
	case "z3-new":
		cmd = exec.Command("z3-new", "-in", "-smt2")
	case "cvc5":
		cmd = exec.Command("cvc5", "--incremental", "--lang=smt2", fmt.Sprintf("--tlimit-per=%d", s.TimeoutMS), "--produce-models")
	default:
		return fmt.Errorf("unknown solver %q", s.Kind)
	}
	stdin, err := cmd.StdinPipe()
	if err != nil {
		return err
	}
	stdout, err := cmd.StdoutPipe()
	if err != nil {
		return err
	}
	cmd.Stderr = cmd.Stdout
	if err := cmd.Start(); err != nil {
		return err
	}
	s.cmd = cmd
	s.in = bufio.NewWriterSize(stdin, 1<<16)
	s.out = newLinePump(stdout)
	s.gen++ // a term table belongs to exactly one solver; gen invalidates definitions on restart
	s.sentDepth = 0
	if s.frames == nil {
		s.frames = [][]*Term{nil}
		s.sentLits = []int{0}
	}
	for i := range s.sentLits {
		s.sentLits[i] = 0
	}
	s.declared = map[*Term]bool{}
	if s.Kind == "cvc5" {
		s.send("(set-logic ALL)")
	}
	s.send("(set-option :global-declarations true)")
	s.send("(set-option :produce-models true)")
	if s.Kind != "cvc5" {
		s.send(fmt.Sprintf("(set-option :timeout %d)", s.TimeoutMS))
		if s.Seed != 0 {
			s.send(fmt.Sprintf("(set-option :smt.random_seed %d)", s.Seed))
			s.send(fmt.Sprintf("(set-option :sat.random_seed %d)", s.Seed))
		}
	}
	return nil
}

func (s *Solver) Close() {
	if s.cmd != nil {
		s.send("(exit)")
		s.in.Flush()
		done := make(chan struct{})
		go func() { s.cmd.Wait(); close(done) }()
		select {
		case <-done:
		case <-time.After(2 * time.Second):
			s.cmd.Process.Kill()
		}
		s.cmd = nil
	}
}

// Restart kills the process and starts a fresh one; all definitions are lost
// (terms are re-sent lazily because the generation changes).
func (s *Solver) Restart() error {
	if s.cmd != nil {
		s.cmd.Process.Kill()
		s.cmd.Wait()
	}
	s.Stats.Restarts++
	return s.start()
}

func (s *Solver) send(line string) {
	if s.log != nil {
		fmt.Fprintln(s.log, line)
	}
	s.in.WriteString(line)
	s.in.WriteByte('\n')
}

// define makes sure t and its sub-terms are defined in the solver.
func (s *Solver) define(t *Term) {
	if t.op == OpConst {
		return
	}
	if t.op == OpVar {
		if !s.declared[t] {
			s.declared[t] = true
			s.send(fmt.Sprintf("(declare-const %s %s)", t.name, sortString(t.sort)))
		}
		return
	}
	if t.gen == s.gen {
		return
	}
	// iterative post-order to avoid deep recursion
	type fr struct {
		t *Term
		i int
	}
	mark := s.gen
	if s.compact(t, mark) {
		return
	}
	stack := []fr{{t, 0}}
	for len(stack) > 0 {
		f := &stack[len(stack)-1]
		if f.i < int(f.t.n) {
			c := f.t.a[f.i]
			f.i++
			if c.op == OpConst {
				continue
			}
			if c.op == OpVar {
				s.define(c)
				continue
			}
			if c.gen != mark && !s.compact(c, mark) {
				stack = append(stack, fr{c, 0})
			}
			continue
		}
		if f.t.gen != mark {
			f.t.gen = mark
			s.send(fmt.Sprintf("(define-fun t%d () %s %s)", f.t.id, sortString(f.t.sort), f.t.body()))
		}
		stack = stack[:len(stack)-1]
	}
}

// The assertion stack is kept locally and sent to the solver lazily, right
// before a check-sat: paths that are decided entirely by the front solver
// cause no solver traffic at all, and a restarted solver is re-synchronised
// from the local stack.

func (s *Solver) Push() {
	s.frames = append(s.frames, nil)
	s.sentLits = append(s.sentLits, 0)
	s.depth++
}

func (s *Solver) PopTo(depth int) {
	if depth < s.depth {
		s.frames = s.frames[:depth+1]
		s.sentLits = s.sentLits[:depth+1]
		if s.sentDepth > depth {
			s.send(fmt.Sprintf("(pop %d)", s.sentDepth-depth))
			s.sentDepth = depth
		}
		s.depth = depth
	}
}

func (s *Solver) Depth() int { return s.depth }

func (s *Solver) Assert(t *Term) {
	if t.IsTrue() {
		return
	}
	s.frames[s.depth] = append(s.frames[s.depth], t)
}

// sync sends the not yet transmitted part of the assertion stack.
func (s *Solver) sync() {
	for i := 0; i <= s.depth; i++ {
		if i > s.sentDepth {
			s.send("(push 1)")
			s.sentDepth = i
		}
		fr := s.frames[i]
		for j := s.sentLits[i]; j < len(fr); j++ {
			s.define(fr[j])
			s.send(fmt.Sprintf("(assert %s)", fr[j].ref()))
		}
		s.sentLits[i] = len(fr)
	}
}

// Check runs check-sat under the current assertions plus the extra literals.
func (s *Solver) Check(extra ...*Term) Result {
	r, _ := s.CheckModel(nil, extra...)
	return r
}

// CheckModel is Check that also returns the values of vars when sat.
func (s *Solver) CheckModel(vars []*Term, extra ...*Term) (Result, Model) {
	s.sync()
	if len(extra) > 0 {
		s.send("(push 1)")
		for _, e := range extra {
			s.define(e)
			s.send(fmt.Sprintf("(assert %s)", e.ref()))
		}
	}
	start := time.Now()
	s.send("(check-sat)")
	gen := s.gen
	r := s.readResult()
	var m Model
	if r == Sat && vars != nil {
		var decl []*Term
		for _, v := range vars {
			if s.declared[v] {
				decl = append(decl, v)
			}
		}
		var err error
		m, err = s.Values(decl)
		if err != nil {
			r = Unknown
			s.Restart()
		}
	}
	s.Stats.Time += time.Since(start)
	if len(extra) > 0 && s.gen == gen {
		s.send("(pop 1)")
	}
	switch r {
	case Sat:
		s.Stats.Sat++
	case Unsat:
		s.Stats.Unsat++
	default:
		s.Stats.Unknown++
	}
	return r, m
}

func (s *Solver) readResult() Result {
	s.in.Flush()
	for {
		line, err := s.out.ReadString('\n')
		if err != nil {
			s.Stats.Errors++
			s.sawError = true
			// process died (out of memory?): restart and report unknown
			s.Restart()
			return Unknown
		}
		line = strings.TrimSpace(line)
		switch {
		case line == "sat":
			return Sat
		case line == "unsat":
			return Unsat
		case line == "unknown" || line == "timeout":
			return Unknown
		case strings.HasPrefix(line, "(error"):
			s.Stats.Errors++
			s.sawError = true
			if s.log != nil {
				fmt.Fprintln(s.log, "; ERROR: "+line)
			}
			fmt.Fprintln(os.Stderr, "solver error: "+line)
			// an error makes the answer that follows untrustworthy
			for {
				l2, err := s.out.ReadString('\n')
				if err != nil {
					s.Restart()
					return Unknown
				}
				l2 = strings.TrimSpace(l2)
				if l2 == "sat" || l2 == "unsat" || l2 == "unknown" || l2 == "timeout" {
					return Unknown
				}
			}
		}
	}
}

// Values asks the solver for the values of the given variables (after a Sat).
func (s *Solver) Values(vars []*Term) (Model, error) {
	m := Model{}
	if len(vars) == 0 {
		return m, nil
	}
	var sb strings.Builder
	sb.WriteString("(get-value (")
	for i, v := range vars {
		if i > 0 {
			sb.WriteByte(' ')
		}
		sb.WriteString(v.name)
	}
	sb.WriteString("))")
	s.send(sb.String())
	s.in.Flush()
	// read balanced s-expression
	var buf strings.Builder
	depth := 0
	started := false
	for {
		line, err := s.out.ReadString('\n')
		if err != nil {
			return nil, err
		}
		if strings.HasPrefix(strings.TrimSpace(line), "(error") {
			s.sawError = true
			return nil, fmt.Errorf("solver: %s", line)
		}
		for _, c := range line {
			if c == '(' {
				depth++
				started = true
			} else if c == ')' {
				depth--
			}
		}
		buf.WriteString(line)
		if started && depth == 0 {
			break
		}
	}
	toks := tokenize(buf.String())
	// pattern: ( ( name value ) ( name value ) ... ) where value may be
	// #x.., #b.., true, false, (_ bvN w), integer, (- integer)
	i := 1
	for i < len(toks) && toks[i] == "(" {
		name := toks[i+1]
		j := i + 2
		var val uint64
		switch {
		case toks[j] == "(" && toks[j+1] == "_":
			v, _ := strconv.ParseUint(strings.TrimPrefix(toks[j+2], "bv"), 10, 64)
			val = v
			j += 5
		case toks[j] == "(" && toks[j+1] == "-":
			v, _ := strconv.ParseUint(toks[j+2], 10, 64)
			val = -v
			j += 4
		default:
			tk := toks[j]
			switch {
			case tk == "true":
				val = 1
			case tk == "false":
				val = 0
			case strings.HasPrefix(tk, "#x"):
				val, _ = strconv.ParseUint(tk[2:], 16, 64)
			case strings.HasPrefix(tk, "#b"):
				val, _ = strconv.ParseUint(tk[2:], 2, 64)
			default:
				val, _ = strconv.ParseUint(tk, 10, 64)
			}
			j++
		}
		name = strings.TrimPrefix(name, "n")
		if k := strings.IndexByte(name, '_'); k >= 0 {
			name = name[:k]
		}
		idx, _ := strconv.Atoi(name)
		m[idx] = val
		i = j + 1 // skip ")"
	}
	return m, nil
}

func tokenize(s string) []string {
	var toks []string
	cur := strings.Builder{}
	flush := func() {
		if cur.Len() > 0 {
			toks = append(toks, cur.String())
			cur.Reset()
		}
	}
	for _, c := range s {
		switch c {
		case '(', ')':
			flush()
			toks = append(toks, string(c))
		case ' ', '\n', '\t', '\r':
			flush()
		default:
			cur.WriteRune(c)
		}
	}
	flush()
	return toks
}

// linePump reads the solver's output in its own goroutine so that the solver
// never blocks on a full pipe while we are still writing commands.
type linePump struct {
	mu    sync.Mutex
	cond  *sync.Cond
	lines []string
	err   error
}

func newLinePump(r io.Reader) *linePump {
	p := &linePump{}
	p.cond = sync.NewCond(&p.mu)
	go func() {
		br := bufio.NewReaderSize(r, 1<<16)
		for {
			line, err := br.ReadString('\n')
			p.mu.Lock()
			if line != "" {
				p.lines = append(p.lines, line)
			}
			if err != nil {
				p.err = err
				p.mu.Unlock()
				p.cond.Broadcast()
				return
			}
			p.mu.Unlock()
			p.cond.Broadcast()
		}
	}()
	return p
}

func (p *linePump) ReadString(delim byte) (string, error) {
	p.mu.Lock()
	defer p.mu.Unlock()
	for len(p.lines) == 0 {
		if p.err != nil {
			return "", p.err
		}
		p.cond.Wait()
	}
	l := p.lines[0]
	p.lines = p.lines[1:]
	return l, nil
}

// ResetBase drops the base-level assertions (used when the term table is
// replaced).
func (s *Solver) ResetBase() {
	s.frames = [][]*Term{nil}
	s.sentLits = []int{0}
	s.depth = 0
}

// compact defines a large term that depends on a single 8-bit variable as a
// reduced decision tree over the variable's bits (computed from the term's
// 256-entry value table) instead of its syntactic structure: deep ite chains
// from table lookups are what the solver is slowest on.
func (s *Solver) compact(t *Term, mark int) bool {
	if s.TT == nil || t.sz < 600 || t.sort == SortInt || noCompact {
		return false
	}
	v := s.TT.single8(t)
	if v == nil {
		return false
	}
	s.define(v)
	tab := s.TT.valueTable(t, v)
	var build func(lo, n int) string
	build = func(lo, n int) string {
		same := true
		for i := 1; i < n; i++ {
			if tab[lo+i] != tab[lo] {
				same = false
				break
			}
		}
		if same {
			if t.sort == SortBool {
				if tab[lo] == 1 {
					return "true"
				}
				return "false"
			}
			return constString(&Term{op: OpConst, sort: t.sort, val: tab[lo]})
		}
		h := n / 2
		bit := 0
		for x := h; x > 1; x >>= 1 {
			bit++
		}
		l, r := build(lo, h), build(lo+h, h)
		if l == r {
			return l
		}
		return fmt.Sprintf("(ite (= ((_ extract %d %d) %s) #b1) %s %s)", bit, bit, v.name, r, l)
	}
	t.gen = mark
	s.send(fmt.Sprintf("(define-fun t%d () %s %s)", t.id, sortString(t.sort), build(0, 256)))
	return true
}

var noCompact = os.Getenv("GOSYM_NOCOMPACT") != ""
