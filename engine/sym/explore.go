package sym

import (
	"fmt"
	"go/types"
	"os"
	"sort"
	"strings"
	"time"

	"golang.org/x/tools/go/ssa"
)

type decKind uint8

const (
	dBranch decKind = iota
	dChoice
	dConcrete
	dMerge
)

type decision struct {
	kind      decKind
	alt       int // branch: 0 = condition true, 1 = false; choice: index; merge: 1 = merged, 0 = inlined
	nalts     int
	forced    bool // branch: the other side is infeasible
	donated   bool // the remaining siblings were given to another worker
	val       uint64
	excl      []uint64
	resolved  bool
	exhausted bool
	lit       *Term
	memo      value
	memoOK    bool
	what      string
}

// PrefixEntry is the serialisable form of a decision.
type PrefixEntry struct {
	Kind   uint8
	Alt    int
	NAlts  int
	Forced bool
	Val    uint64
	Excl   []uint64
	What   string
}

type explorer struct {
	decs      []decision
	pos       int
	asserted  int // decisions [0,asserted) have their frames in the solver
	baseDepth int
	parent    *explorer
	model     Model
	// assertions made by Assume per solver depth (for idempotent re-assert)
	assumed map[int]int // term id -> solver depth
}

func (m *Machine) newExplorer(parent *explorer) *explorer {
	return &explorer{parent: parent, baseDepth: m.solver.Depth(), assumed: map[int]int{}}
}

// beginPath prepares the solver for (re-)executing with the current decs as
// replay prefix.
func (m *Machine) beginPath(ex *explorer) {
	ex.pos = 0
	if ex.asserted > len(ex.decs) {
		ex.asserted = len(ex.decs)
	}
	m.popTo(ex, ex.asserted)
}

func (m *Machine) popTo(ex *explorer, nd int) {
	depth := ex.baseDepth + nd
	if m.solver.Depth() > depth {
		m.solverPopTo(depth)
		for id, d := range ex.assumed {
			if d > depth {
				delete(ex.assumed, id)
			}
		}
	}
	ex.asserted = nd
}

func (m *Machine) pathVars() []*Term {
	var vs []*Term
	for _, d := range m.draws {
		if d.varIdx >= 0 {
			vs = append(vs, m.tt.VarW(d.varIdx, d.w))
		}
	}
	return vs
}

// pushLit opens the frame for a decision and asserts its literal.
func (m *Machine) pushLit(ex *explorer, lit *Term) {
	m.solver.Push()
	if lit != nil {
		m.assertLit(lit)
	}
	ex.asserted++
}

func (m *Machine) replayMismatch(ex *explorer, want decKind, what string) {
	d := ex.decs[ex.pos]
	if os.Getenv("GOSYM_DEBUG") != "" {
		for i := 0; i <= ex.pos && i < len(ex.decs); i++ {
			fmt.Fprintf(os.Stderr, "  dec %d: kind=%d alt=%d forced=%v %s\n", i, ex.decs[i].kind, ex.decs[i].alt, ex.decs[i].forced, ex.decs[i].what)
		}
	}
	panic(fmt.Sprintf("internal: non-deterministic replay at decision %d: recorded kind %d (%s), now kind %d (%s)", ex.pos, d.kind, d.what, want, what))
}

// branch decides a symbolic condition, forking when both sides are feasible.
func (m *Machine) branch(c *Term, what string) bool {
	if c.IsConst() {
		return c.IsTrue()
	}
	ex := m.ex
	if m.initing > 0 {
		panic("symbolic branch during package initialisation")
	}
	m.Stats.Decisions++
	if ex.pos < len(ex.decs) {
		d := &ex.decs[ex.pos]
		if d.kind != dBranch {
			m.replayMismatch(ex, dBranch, what)
		}
		lit := c
		if d.alt == 1 {
			lit = m.tt.Not(c)
		}
		d.lit = lit
		if ex.pos >= ex.asserted {
			m.pushLit(ex, lit)
		}
		ex.pos++
		return d.alt == 0
	}
	// new decision
	notc := m.tt.Not(c)
	canT, canF := false, false
	var modelT, modelF Model
	if t, f, ok := m.domDecide(c); ok {
		m.Stats.DomainDecided++
		if !t && !f {
			panic(pathEnd{kind: endInfeasible, msg: "path condition unsatisfiable (byte domain empty)"})
		}
		d := decision{kind: dBranch, nalts: 2, what: what}
		if t && f && m.Opts.Trace {
			m.noteFork(what)
		}
		if t {
			d.alt, d.lit, d.forced = 0, c, !f
		} else {
			d.alt, d.lit, d.forced = 1, notc, true
		}
		m.patchModel(ex, d.lit)
		ex.decs = append(ex.decs, d)
		m.pushLit(ex, d.lit)
		ex.pos++
		return d.alt == 0
	}
	if iv := m.ivalDecide(c); iv >= 0 {
		// implied by interval reasoning over the byte domains
		m.Stats.IntervalDecided++
		d := decision{kind: dBranch, nalts: 2, what: what, forced: true}
		if iv == 1 {
			d.alt, d.lit = 0, c
		} else {
			d.alt, d.lit = 1, notc
		}
		ex.decs = append(ex.decs, d)
		m.pushLit(ex, d.lit)
		ex.pos++
		return d.alt == 0
	}
	if ex.model != nil {
		if Eval(c, ex.model) == 1 {
			canT, modelT = true, ex.model
		} else {
			canF, modelF = true, ex.model
		}
	}
	vars := m.pathVars()
	if m.Opts.Trace {
		if m.solverWhat == nil {
			m.solverWhat = map[string]int{}
		}
		sup := m.tt.supportOf(c)
		m.solverWhat[fmt.Sprintf("%s vars=%d many=%v", what, len(sup.vars), sup.many)]++
		if os.Getenv("GOSYM_TERMS") != "" && len(sup.vars) > 1 && m.solverWhat["printed"] < 5 {
			m.solverWhat["printed"]++
			fmt.Println("SOLVER COND:", c.String())
		}
	}
	if !canT {
		r, mod := m.solver.CheckModel(vars, c)
		switch r {
		case Sat:
			canT, modelT = true, mod
		case Unknown:
			canT = true
			m.Stats.UnknownBranches++
		}
	}
	if !canF {
		r, mod := m.solver.CheckModel(vars, notc)
		switch r {
		case Sat:
			canF, modelF = true, mod
		case Unknown:
			canF = true
			m.Stats.UnknownBranches++
		}
	}
	if !canT && !canF {
		// the path condition itself is unsatisfiable (can happen after an
		// unknown result was optimistically kept)
		panic(pathEnd{kind: endInfeasible, msg: "path condition unsatisfiable"})
	}
	d := decision{kind: dBranch, nalts: 2, what: what}
	if canT && canF && m.Opts.Trace {
		m.noteFork(what)
	}
	if canT {
		d.alt = 0
		d.lit = c
		d.forced = !canF
		ex.model = modelT
	} else {
		d.alt = 1
		d.lit = notc
		d.forced = true
		ex.model = modelF
	}
	ex.decs = append(ex.decs, d)
	m.pushLit(ex, d.lit)
	ex.pos++
	return d.alt == 0
}

// choice picks one of n alternatives (all feasible, no solver involved).
func (m *Machine) choice(n int, what string) int {
	if n <= 1 {
		return 0
	}
	ex := m.ex
	m.Stats.Decisions++
	if ex.pos < len(ex.decs) {
		d := &ex.decs[ex.pos]
		if d.kind != dChoice {
			m.replayMismatch(ex, dChoice, what)
		}
		if w := strings.TrimPrefix(d.what, "imported:"); (w != what && w != "") || d.alt >= n {
			if os.Getenv("GOSYM_DEBUG") != "" {
				for i := 0; i <= ex.pos; i++ {
					fmt.Fprintf(os.Stderr, "  dec %d: kind=%d alt=%d/%d %s\n", i, ex.decs[i].kind, ex.decs[i].alt, ex.decs[i].nalts, ex.decs[i].what)
				}
			}
			panic(fmt.Sprintf("internal: non-deterministic replay at choice %d: recorded %q alt %d, now %q with %d alternatives", ex.pos, d.what, d.alt, what, n))
		}
		if ex.pos >= ex.asserted {
			m.pushLit(ex, nil)
		}
		ex.pos++
		return d.alt
	}
	ex.decs = append(ex.decs, decision{kind: dChoice, nalts: n, what: what})
	m.pushLit(ex, nil)
	ex.pos++
	return 0
}

// ensureModel makes sure ex.model satisfies the current path condition.
func (m *Machine) ensureModel() Model {
	ex := m.ex
	if ex.model != nil {
		return ex.model
	}
	r, mod := m.solver.CheckModel(m.pathVars())
	switch r {
	case Sat:
		ex.model = mod
		return mod
	case Unsat:
		panic(pathEnd{kind: endInfeasible, msg: "path condition unsatisfiable"})
	}
	panic(pathEnd{kind: endUnknown, msg: "solver returned unknown for the path condition"})
}

// concretize forks over the feasible values of t.
func (m *Machine) concretize(t *Term, what string) uint64 {
	if t.IsConst() {
		return t.val
	}
	ex := m.ex
	m.Stats.Decisions++
	m.Stats.Concretizations++
	eqv := func(v uint64) *Term {
		if t.sort == SortInt {
			return m.tt.Eq(t, m.tt.Int(int64(v)))
		}
		if t.sort == SortBool {
			return m.tt.Eq(t, m.tt.Bool(v == 1))
		}
		return m.tt.Eq(t, m.tt.BV(t.sort, v))
	}
	if ex.pos < len(ex.decs) {
		d := &ex.decs[ex.pos]
		if d.kind != dConcrete {
			m.replayMismatch(ex, dConcrete, what)
		}
		if !d.resolved {
			// find a value not yet explored
			if ex.pos != len(ex.decs)-1 || ex.pos < ex.asserted {
				panic("internal: unresolved concretize decision not at the end of the prefix")
			}
			var lits []*Term
			for _, e := range d.excl {
				lits = append(lits, m.tt.Not(eqv(e)))
			}
			r, mod := m.solver.CheckModel(m.pathVars(), lits...)
			switch r {
			case Unsat:
				d.exhausted = true
				panic(pathEnd{kind: endExhausted})
			case Unknown:
				d.exhausted = true
				panic(pathEnd{kind: endUnknown, msg: "solver unknown while enumerating values of " + what})
			}
			d.val = Eval(t, mod)
			d.resolved = true
			ex.model = mod
		}
		d.lit = eqv(d.val)
		if ex.pos >= ex.asserted {
			m.pushLit(ex, d.lit)
		}
		ex.pos++
		return d.val
	}
	mod := m.ensureModel()
	v := Eval(t, mod)
	d := decision{kind: dConcrete, val: v, resolved: true, lit: eqv(v), what: what}
	ex.decs = append(ex.decs, d)
	m.pushLit(ex, d.lit)
	ex.pos++
	return v
}

func (m *Machine) concreteInt(t *Term, what string) int64 {
	if t.IsConst() {
		return t.SConst()
	}
	v := m.concretize(t, what)
	return sext(v, t.sort)
}

func (m *Machine) concreteIntT(t *Term, typ types.Type, what string) int64 {
	if t.sort == SortInt {
		return int64(m.concretize(t, what))
	}
	v := m.concretize(t, what)
	if isSigned(typ) {
		return sext(v, t.sort)
	}
	return int64(v)
}

// assume adds c to the path condition; ends the path if it is infeasible.
func (m *Machine) assume(c *Term) {
	if c.IsTrue() {
		return
	}
	if c.IsFalse() {
		panic(pathEnd{kind: endInfeasible, msg: "assumption is false"})
	}
	if m.mergeDepth > 0 {
		panic(pathEnd{kind: endAbortMerge, msg: "assumption inside merged call"})
	}
	ex := m.ex
	if _, ok := ex.assumed[c.id]; ok {
		return
	}
	if t, _, ok := m.domDecide(c); ok && ex.pos >= len(ex.decs) {
		if !t {
			panic(pathEnd{kind: endInfeasible, msg: "assumption unsatisfiable"})
		}
		m.patchModel(ex, c)
	} else if ex.pos >= len(ex.decs) {
		// new territory: check feasibility
		if ex.model == nil || Eval(c, ex.model) != 1 {
			r, mod := m.solver.CheckModel(m.pathVars(), c)
			switch r {
			case Unsat:
				panic(pathEnd{kind: endInfeasible, msg: "assumption unsatisfiable"})
			case Sat:
				ex.model = mod
			default:
				ex.model = nil
				m.Stats.UnknownBranches++
			}
		}
	} else if ex.model != nil && Eval(c, ex.model) != 1 {
		ex.model = nil
	}
	m.assertLit(c)
	ex.assumed[c.id] = m.solver.Depth()
}

// Violation describes one counterexample.
type Violation struct {
	Harness  string
	Msg      string
	Where    string
	KnownKey string
	Vector   []uint64
	Draws    []string
	Path     []PrefixEntry
	Panic    bool
}

func (m *Machine) vectorFromModel(mod Model) ([]uint64, []string) {
	vec := make([]uint64, len(m.draws))
	desc := make([]string, len(m.draws))
	for i, d := range m.draws {
		if d.varIdx >= 0 {
			vec[i] = mod[d.varIdx] & mask(d.w)
		} else {
			vec[i] = d.val
		}
		desc[i] = d.what
	}
	return vec, desc
}

func (m *Machine) recordViolation(msg, where string, mod Model, isPanic bool) {
	vec, desc := m.vectorFromModel(mod)
	v := Violation{Harness: m.harnessName, Msg: msg, Where: where, KnownKey: m.knownKey, Vector: vec, Draws: desc, Panic: isPanic}
	for ex := m.ex; ex != nil; ex = ex.parent {
		_ = ex
	}
	m.violations = append(m.violations, v)
}

// assertHolds checks an assertion of the harness.
func (m *Machine) assertHolds(c *Term, msg string, where string) {
	if c.IsTrue() {
		return
	}
	if m.mergeDepth > 0 {
		panic(pathEnd{kind: endAbortMerge, msg: "assertion inside merged call"})
	}
	m.Stats.Assertions++
	ex := m.ex
	notc := m.tt.Not(c)
	var witness Model
	if t, f, ok := m.domDecide(c); ok && !c.IsConst() && (!f || (t || f)) {
		// single-byte assertion decided by the front solver
		if !f {
			return // the negation has no value in the domain: holds
		}
		if v := m.tt.single8(c); v != nil && !m.dom.entangled(v) {
			m.ensureModel()
			m.patchModel(ex, notc)
			if ex.model != nil {
				witness = ex.model
			}
		}
	}
	if ex.model != nil && !m.modelSatisfiesPC(ex.model) {
		// defensive: never report a witness that is not on this path
		m.Stats.StaleModels++
		if os.Getenv("GOSYM_DEBUG") != "" {
			fmt.Fprintf(os.Stderr, "stale model at assertion %q in %s\n", msg, where)
		}
		ex.model = nil
		witness = nil
	}
	if witness != nil {
		// fallthrough to recording below
	} else if c.IsFalse() {
		witness = m.ensureModel()
	} else if ex.model != nil && Eval(c, ex.model) != 1 {
		witness = ex.model
	} else {
		r, mod := m.solver.CheckModel(m.pathVars(), notc)
		switch r {
		case Sat:
			witness = mod
		case Unknown:
			m.Stats.UnknownAsserts++
			m.inconclusive = append(m.inconclusive, fmt.Sprintf("%s: solver unknown for assertion %q at %s", m.harnessName, msg, where))
			return
		default:
			return
		}
	}
	m.recordViolation(msg, where, witness, false)
	// continue with the assertion assumed, to look for other violations
	m.assume(c)
}

// ---- running paths ----

// PathResult summarises one explored path.
type PathResult struct {
	End endKind
	Msg string
	OK  bool
}

// runPath executes fn once under the current decision prefix.
func (m *Machine) runPath(fn *ssa.Function) (res PathResult) {
	m.resetPathState()
	ex := m.ex
	m.beginPath(ex)
	defer func() {
		m.finishPath()
		if r := recover(); r != nil {
			switch r := r.(type) {
			case pathEnd:
				res = PathResult{End: r.kind, Msg: r.msg}
			case *targetPanic:
				// uncaught panic of the program under test
				msg := "panic: " + m.panicString(r)
				func() {
					defer func() {
						if r2 := recover(); r2 != nil {
							if pe, ok := r2.(pathEnd); ok {
								res = PathResult{End: pe.kind, Msg: pe.msg}
								return
							}
							panic(r2)
						}
					}()
					mod := m.ensureModel()
					m.recordViolation(msg, r.where, mod, true)
					res = PathResult{End: endViolation, Msg: msg}
				}()
			default:
				panic(r)
			}
		}
	}()
	m.runMain(fn)
	return PathResult{OK: true}
}

func (m *Machine) panicString(tp *targetPanic) string {
	switch v := tp.v.(type) {
	case Iface:
		if v.t == nil {
			return "nil"
		}
		if s, ok := v.v.(Str); ok {
			if cs, ok := s.concrete(); ok {
				return cs + " [" + tp.where + "]"
			}
		}
		return fmt.Sprintf("value of type %s [%s]", v.t, tp.where)
	}
	return tp.where
}

func (m *Machine) resetPathState() {
	m.steps = 0
	ps := m.Opts.PathSeconds
	if ps == 0 {
		ps = 120
	}
	m.pathDeadline = time.Now().Add(time.Duration(ps) * time.Second)
	m.nvars = 0
	m.draws = m.draws[:0]
	m.observes = m.observes[:0]
	m.knownKey = ""
	m.allocStamp = 1
	m.mergeDepth = 0
	m.mergeStampBase = m.mergeStampBase[:0]
	m.stubState = map[string]value{}
	m.pathCovers = m.pathCovers[:0]
	m.syncStates = nil
	m.uniques = m.uniques[:m.uniquesInit]
	m.mapOrderNondet = m.Opts.MapOrder
}

func (m *Machine) finishPath() {
	m.Stats.Steps += int64(m.steps)
	// undo writes to global state
	for i := len(m.undo) - 1; i >= 0; i-- {
		u := m.undo[i]
		if u.mp != nil {
			u.mp.entries = u.mo
			u.mp.n = u.mn
		} else {
			*u.p = u.old
		}
	}
	m.undo = m.undo[:0]
	if m.sched != nil {
		m.sched.killAll()
		m.sched = nil
	}
}

// advance moves ex to the next unexplored path below decision index base.
func (m *Machine) advance(ex *explorer, base int) bool {
	for i := len(ex.decs) - 1; i >= base; i-- {
		d := &ex.decs[i]
		ok := false
		switch d.kind {
		case dBranch:
			if !d.forced && !d.donated && d.alt == 0 {
				d.alt = 1
				d.forced = true // no further sibling
				ok = true
			}
		case dChoice:
			if d.alt+1 < d.nalts {
				d.alt++
				ok = true
			}
		case dConcrete:
			if !d.exhausted && !d.donated {
				d.excl = append(d.excl, d.val)
				d.resolved = false
				ok = true
			}
		}
		if ok {
			d.memo, d.memoOK = nil, false
			ex.decs = ex.decs[:i+1]
			if ex.asserted > i {
				m.popTo(ex, i)
			}
			ex.model = nil
			return true
		}
	}
	ex.decs = ex.decs[:base]
	return false
}

// donate splits off the shallowest open sibling as a prefix for another
// worker.  Returns nil if there is none.
func (m *Machine) donate(ex *explorer) []PrefixEntry {
	for i := 0; i < len(ex.decs); i++ {
		d := &ex.decs[i]
		switch d.kind {
		case dBranch:
			if !d.forced && !d.donated && d.alt == 0 {
				d.donated = true
				p := exportPrefix(ex.decs[:i])
				p = append(p, PrefixEntry{Kind: uint8(dBranch), Alt: 1, NAlts: 2, Forced: true})
				return p
			}
		case dChoice:
			if d.alt+1 < d.nalts {
				d.nalts--
				p := exportPrefix(ex.decs[:i])
				p = append(p, PrefixEntry{Kind: uint8(dChoice), Alt: d.nalts, NAlts: d.nalts + 1})
				return p
			}
		}
	}
	return nil
}

func exportPrefix(decs []decision) []PrefixEntry {
	out := make([]PrefixEntry, len(decs))
	for i, d := range decs {
		out[i] = PrefixEntry{Kind: uint8(d.kind), Alt: d.alt, NAlts: d.nalts, Forced: true, Val: d.val, What: strings.TrimPrefix(d.what, "imported:")}
		if d.kind == dChoice {
			// the receiver explores only this alternative
			out[i].NAlts = d.alt + 1
		}
	}
	return out
}

func importPrefix(p []PrefixEntry) []decision {
	out := make([]decision, len(p))
	for i, e := range p {
		out[i] = decision{kind: decKind(e.Kind), alt: e.Alt, nalts: e.NAlts, forced: true, val: e.Val, resolved: true, exhausted: true, what: "imported:" + e.What}
		if decKind(e.Kind) == dChoice {
			out[i].nalts = e.Alt + 1
		}
		if decKind(e.Kind) == dConcrete {
			out[i].donated = true
		}
	}
	return out
}

// ---- region merging (pure diamonds) ----

type region struct {
	blocks []*ssa.BasicBlock // topological order
	join   *ssa.BasicBlock
	inSet  map[*ssa.BasicBlock]bool
}

func (p *Program) regionFor(instr *ssa.If) *region {
	if r, ok := p.regions.Load(instr); ok {
		if r == nil {
			return nil
		}
		return r.(*region)
	}
	r := computeRegion(instr)
	if r == nil {
		p.regions.Store(instr, nil)
		return nil
	}
	p.regions.Store(instr, r)
	return r
}

const maxRegionBlocks = 40

func pureInstr(instr ssa.Instruction) bool {
	switch instr := instr.(type) {
	case *ssa.DebugRef, *ssa.Phi, *ssa.If, *ssa.Jump:
		return true
	case *ssa.BinOp:
		switch instr.Op.String() {
		case "/", "%":
			c, ok := instr.Y.(*ssa.Const)
			if !ok || c.Value == nil {
				return false
			}
			if isInteger(c.Type()) && c.Uint64() == 0 && c.Int64() == 0 {
				return false
			}
			return isInteger(instr.X.Type())
		case "<<", ">>":
			if _, ok := instr.Y.(*ssa.Const); ok {
				return true
			}
			return !isSigned(instr.Y.Type())
		}
		return scalarType(instr.X.Type()) || isString(instr.X.Type())
	case *ssa.UnOp:
		switch instr.Op.String() {
		case "!", "-", "^":
			return scalarType(instr.X.Type())
		}
		return false
	case *ssa.Lookup:
		// string indexing: pure when the index is concrete and in range
		// (checked when the region is evaluated)
		return isString(instr.X.Type()) && !instr.CommaOk
	case *ssa.Index:
		return isString(instr.X.Type())
	case *ssa.Convert:
		return scalarIntType(instr.X.Type()) && scalarIntType(instr.Type())
	case *ssa.ChangeType:
		return scalarType(instr.X.Type())
	case *ssa.Call:
		if b, ok := instr.Call.Value.(*ssa.Builtin); ok {
			switch b.Name() {
			case "len", "cap":
				switch instr.Call.Args[0].Type().Underlying().(type) {
				case *types.Basic, *types.Slice, *types.Array:
					return true
				}
			case "min", "max":
				return scalarIntType(instr.Type())
			}
		}
		return false
	}
	return false
}

func scalarIntType(t types.Type) bool { return isInteger(t) || isBool(t) }
func scalarType(t types.Type) bool    { return isInteger(t) || isBool(t) }

func computeRegion(instr *ssa.If) *region {
	b := instr.Block()
	s0, s1 := b.Succs[0], b.Succs[1]
	if s0 == s1 {
		return nil
	}
	// candidate joins: blocks reachable from s0/s1 within a bound, BFS order
	var order []*ssa.BasicBlock
	seen := map[*ssa.BasicBlock]bool{}
	queue := []*ssa.BasicBlock{s0, s1}
	for len(queue) > 0 && len(order) < maxRegionBlocks {
		x := queue[0]
		queue = queue[1:]
		if seen[x] || x == b {
			continue
		}
		seen[x] = true
		order = append(order, x)
		queue = append(queue, x.Succs...)
	}
	for _, j := range order {
		// region = blocks reachable from {s0,s1} without passing through j
		in := map[*ssa.BasicBlock]bool{}
		okRegion := true
		var visit func(x *ssa.BasicBlock)
		var post []*ssa.BasicBlock
		onStack := map[*ssa.BasicBlock]bool{}
		visit = func(x *ssa.BasicBlock) {
			if !okRegion || x == j {
				return
			}
			if x == b || onStack[x] {
				okRegion = false // cycle
				return
			}
			if in[x] {
				return
			}
			if len(in) >= maxRegionBlocks || len(x.Succs) == 0 {
				okRegion = false
				return
			}
			in[x] = true
			onStack[x] = true
			for _, s := range x.Succs {
				visit(s)
			}
			onStack[x] = false
			post = append(post, x)
		}
		visit(s0)
		visit(s1)
		if !okRegion {
			continue
		}
		// every predecessor of a region block must be in the region or b
		for x := range in {
			for _, p := range x.Preds {
				if p != b && !in[p] {
					okRegion = false
				}
			}
			for _, ins := range x.Instrs {
				if !pureInstr(ins) {
					okRegion = false
				}
			}
		}
		if !okRegion {
			return nil // nearest join has an impure region; larger ones include it
		}
		// phis of j must be scalar
		for _, ins := range j.Instrs {
			phi, ok := ins.(*ssa.Phi)
			if !ok {
				break
			}
			if !scalarType(phi.Type()) {
				return nil
			}
		}
		r := &region{join: j, inSet: in}
		for i := len(post) - 1; i >= 0; i-- {
			r.blocks = append(r.blocks, post[i])
		}
		return r
	}
	return nil
}

// tryRegion evaluates the pure region below a symbolic If and jumps to its
// join block with phis merged by ite.
func (m *Machine) tryRegion(fr *frame, instr *ssa.If, c *Term) bool {
	r := m.P.regionFor(instr)
	if r == nil {
		return false
	}
	// while replaying, a recorded branch decision at this point means the
	// donor did not merge here (cannot happen: regions are static), so
	// regions never consume decisions.
	tt := m.tt
	b := instr.Block()
	type edge struct{ from, to *ssa.BasicBlock }
	eg := map[edge]*Term{}
	eg[edge{b, b.Succs[0]}] = c
	eg[edge{b, b.Succs[1]}] = tt.Not(c)
	evalPhis := func(blk *ssa.BasicBlock) bool {
		var phis []*ssa.Phi
		var vals []value
		for _, ins := range blk.Instrs {
			phi, ok := ins.(*ssa.Phi)
			if !ok {
				break
			}
			var acc value
			var have bool
			for i, p := range blk.Preds {
				g, ok := eg[edge{p, blk}]
				if !ok || g.IsFalse() {
					continue
				}
				v := fr.get(phi.Edges[i])
				if !have {
					acc, have = v, true
					continue
				}
				mv, ok := m.tryMergeValues(g, v, acc)
				if !ok {
					return false
				}
				acc = mv
			}
			if !have {
				return false
			}
			phis = append(phis, phi)
			vals = append(vals, acc)
		}
		for i, phi := range phis {
			fr.env[phi] = vals[i]
		}
		return true
	}
	for _, blk := range r.blocks {
		g := tt.False
		for _, p := range blk.Preds {
			if e, ok := eg[edge{p, blk}]; ok {
				g = tt.Or(g, e)
			}
		}
		if g.IsFalse() {
			for _, s := range blk.Succs {
				eg[edge{blk, s}] = tt.False
			}
			continue
		}
		if !evalPhis(blk) {
			return false
		}
		for _, ins := range blk.Instrs {
			switch ins := ins.(type) {
			case *ssa.Phi, *ssa.DebugRef:
			case *ssa.If:
				cc, ok := fr.get(ins.Cond).(*Term)
				if !ok {
					return false
				}
				eg[edge{blk, blk.Succs[0]}] = tt.Or(eg0(eg[edge{blk, blk.Succs[0]}], tt), tt.And(g, cc))
				eg[edge{blk, blk.Succs[1]}] = tt.Or(eg0(eg[edge{blk, blk.Succs[1]}], tt), tt.And(g, tt.Not(cc)))
			case *ssa.Jump:
				eg[edge{blk, blk.Succs[0]}] = tt.Or(eg0(eg[edge{blk, blk.Succs[0]}], tt), g)
			case *ssa.Lookup:
				x, ok1 := fr.get(ins.X).(Str)
				idx, ok2 := fr.get(ins.Index).(*Term)
				if !ok1 || !ok2 || !idx.IsConst() || idx.SConst() < 0 || idx.SConst() >= int64(x.Len()) {
					return false
				}
				fr.env[ins] = m.strAt(x, int(idx.SConst()))
			case *ssa.Index:
				x, ok1 := fr.get(ins.X).(Str)
				idx, ok2 := fr.get(ins.Index).(*Term)
				if !ok1 || !ok2 || !idx.IsConst() || idx.SConst() < 0 || idx.SConst() >= int64(x.Len()) {
					return false
				}
				fr.env[ins] = m.strAt(x, int(idx.SConst()))
			default:
				m.steps++
				m.exec(fr, ins)
			}
		}
	}
	if !evalPhis(r.join) {
		return false
	}
	m.Stats.Regions++
	fr.prevBlock = b
	fr.block = r.join
	fr.phiDone = true
	return true
}

func eg0(t *Term, tt *TermTable) *Term {
	if t == nil {
		return tt.False
	}
	return t
}

// ---- merging of heap-neutral callees ----

type memoEntry struct {
	v value
}

func (m *Machine) scalarResults(fn *ssa.Function) bool {
	res := fn.Signature.Results()
	if res.Len() == 0 {
		return false
	}
	for i := 0; i < res.Len(); i++ {
		if !scalarType(res.At(i).Type()) {
			return false
		}
	}
	return true
}

func (m *Machine) hasSymbolic(v value, depth int) bool {
	switch v := v.(type) {
	case *Term:
		return !v.IsConst()
	case Str:
		if v.b == nil {
			return false
		}
		for _, t := range v.b {
			if !t.IsConst() {
				return true
			}
		}
	case Slice:
		if depth > 2 {
			return true
		}
		for _, e := range v.a {
			if m.hasSymbolic(e, depth+1) {
				return true
			}
		}
	case Struct:
		for _, e := range v {
			if m.hasSymbolic(e, depth+1) {
				return true
			}
		}
	case Array:
		for _, e := range v {
			if m.hasSymbolic(e, depth+1) {
				return true
			}
		}
	case Iface:
		if v.t == nil {
			return false
		}
		return m.hasSymbolic(v.v, depth+1)
	case Ptr:
		if v.p != nil && depth < 2 {
			return m.hasSymbolic(*v.p, depth+1)
		}
		return !v.isNil()
	case *Map:
		return v != nil && len(v.entries) > 0
	case *Closure:
		if v == nil {
			return false
		}
		for _, e := range v.env {
			if m.hasSymbolic(e, depth+1) {
				return true
			}
		}
	}
	return false
}

// callMaybeMerge calls fn, merging its paths into one result when fn is a
// merge candidate.
func (m *Machine) callMaybeMerge(caller *frame, fn *ssa.Function, args, env []value) value {
	if (!m.Opts.Merge && m.Opts.NoMergeSingle) || m.initing > 0 || m.ex == nil || m.sched != nil || !m.scalarResults(fn) {
		return m.callFunction(caller, fn, args, env)
	}
	if pkg := pkgOf(fn); pkg != nil && !m.pkgSeen[pkg] {
		m.P.ensureBuilt(pkg)
		m.pkgSeen[pkg] = true
	}
	if fn.Blocks == nil || m.lookupIntrinsic(fn) != nil || isVerifrt(fn) {
		return m.callFunction(caller, fn, args, env)
	}
	sym := false
	for _, a := range args {
		if m.hasSymbolic(a, 0) {
			sym = true
			break
		}
	}
	if !sym {
		for _, a := range env {
			if m.hasSymbolic(a, 0) {
				sym = true
				break
			}
		}
	}
	if !sym {
		return m.callFunction(caller, fn, args, env)
	}
	if !m.Opts.Merge && !m.singleVarCall(args, env) {
		if os.Getenv("GOSYM_DEBUG2") != "" && m.ex.parent == nil {
			if t, ok := args[0].(*Term); ok {
				fmt.Fprintf(os.Stderr, "NOTCAND pos=%d %s arg=%s sup=%d\n", m.ex.pos, fn.Name(), t.String(), len(m.tt.supportOf(t).vars))
			}
		}
		return m.callFunction(caller, fn, args, env)
	}
	if os.Getenv("GOSYM_DEBUG2") != "" && m.ex.parent == nil {
		if t, ok := args[0].(*Term); ok {
			fmt.Fprintf(os.Stderr, "CAND pos=%d %s arg=%s\n", m.ex.pos, fn.Name(), t.String())
		}
	}
	ex := m.ex
	m.Stats.Decisions++
	if ex.pos < len(ex.decs) {
		d := &ex.decs[ex.pos]
		if d.kind != dMerge {
			m.replayMismatch(ex, dMerge, "merge "+fn.String())
		}
		idx := ex.pos
		if d.alt == 0 {
			if ex.pos >= ex.asserted {
				m.pushLit(ex, nil)
			}
			ex.pos++
			return m.callFunction(caller, fn, args, env)
		}
		if d.memoOK {
			m.Stats.MemoHits++
			if ex.pos >= ex.asserted {
				m.pushLit(ex, nil)
			}
			ex.pos++
			return copyMemo(d.memo)
		}
		// recompute (foreign prefix): solver must hold exactly the literals
		// of the decisions before this one.
		if ex.asserted > idx {
			m.popTo(ex, idx)
		}
		v, ok := m.trySummarize(caller, fn, args, env)
		if !ok {
			v, ok = m.tryMerge(caller, fn, args, env)
		}
		if !ok {
			m.unsupported("replayed merge of %s could not be reproduced", fn)
		}
		d = &ex.decs[idx]
		d.memo, d.memoOK = v, true
		m.pushLit(ex, nil)
		ex.pos++
		return copyMemo(v)
	}
	d := decision{kind: dMerge, nalts: 1, what: "merge " + fn.String()}
	if v, ok := m.trySummarize(caller, fn, args, env); ok {
		d.alt = 1
		d.memo, d.memoOK = v, true
		ex.decs = append(ex.decs, d)
		m.pushLit(ex, nil)
		ex.pos++
		return copyMemo(v)
	}
	if !m.noMerge[fn] {
		v, ok := m.tryMerge(caller, fn, args, env)
		if ok {
			d.alt = 1
			d.memo, d.memoOK = v, true
			ex.decs = append(ex.decs, d)
			m.pushLit(ex, nil)
			ex.pos++
			return copyMemo(v)
		}
		m.noMerge[fn] = true
		m.Stats.MergeFails++
		if m.Opts.Trace {
			fmt.Printf("merge of %s failed: %s\n", fn, m.lastMergeFail)
		}
	}
	ex.decs = append(ex.decs, d)
	m.pushLit(ex, nil)
	ex.pos++
	return m.callFunction(caller, fn, args, env)
}

func copyMemo(v value) value {
	if t, ok := v.(Tuple); ok {
		c := make(Tuple, len(t))
		copy(c, t)
		return c
	}
	return v
}

// tryMerge explores all paths of fn(args) in a nested explorer and merges the
// results.  ok=false when the call cannot be summarised.
func (m *Machine) tryMerge(caller *frame, fn *ssa.Function, args, env []value) (result value, ok bool) {
	outer := m.ex
	nested := m.newExplorer(outer)
	nested.model = outer.model
	m.ex = nested
	m.mergeDepth++
	m.mergeStampBase = append(m.mergeStampBase, m.allocStamp)
	savedSteps := m.steps
	savedDraws := len(m.draws)
	savedNvars := m.nvars
	defer func() {
		m.solverPopTo(nested.baseDepth)
		m.ex = outer
		m.mergeDepth--
		m.mergeStampBase = m.mergeStampBase[:len(m.mergeStampBase)-1]
		m.draws = m.draws[:savedDraws]
		m.nvars = savedNvars
	}()
	type pr struct {
		cond *Term
		v    value
	}
	var results []pr
	npaths := 0
	for {
		npaths++
		if npaths > m.Opts.MaxMergePath {
			m.lastMergeFail = "too many paths"
			return nil, false
		}
		m.beginPath(nested)
		var v value
		var end *pathEnd
		var tpanic *targetPanic
		func() {
			defer func() {
				if r := recover(); r != nil {
					switch r := r.(type) {
					case pathEnd:
						end = &r
					case *targetPanic:
						tpanic = r
					default:
						panic(r)
					}
				}
			}()
			v = m.callFunction(caller, fn, args, env)
		}()
		if tpanic != nil {
			m.lastMergeFail = "callee panics: " + tpanic.where
			return nil, false
		}
		if end != nil {
			switch end.kind {
			case endExhausted:
				// no such path
			case endInfeasible:
				// path condition (inherited) infeasible: no such path
			case endBudget:
				// step budget is per outer path: give the callee the rest
				m.lastMergeFail = "budget"
				panic(*end)
			default:
				m.lastMergeFail = end.kind.String() + ": " + end.msg
				if end.kind == endUnsupported || end.kind == endUnknown {
					// not a property of merging: propagate
					if end.kind == endUnsupported {
						return nil, false
					}
				}
				return nil, false
			}
		} else {
			cond := m.tt.True
			for i := range nested.decs[:nested.pos] {
				if l := nested.decs[i].lit; l != nil {
					cond = m.tt.And(cond, l)
				}
			}
			results = append(results, pr{cond, v})
		}
		m.steps = savedSteps + (m.steps-savedSteps)/4 // nested work counts a quarter
		if !m.advance(nested, 0) {
			break
		}
	}
	if len(results) == 0 {
		panic(pathEnd{kind: endInfeasible, msg: "no feasible path through merged call"})
	}
	acc := results[len(results)-1].v
	for i := len(results) - 2; i >= 0; i-- {
		mv, ok := m.tryMergeValues(results[i].cond, results[i].v, acc)
		if !ok {
			m.lastMergeFail = "results not mergeable"
			return nil, false
		}
		acc = mv
	}
	m.Stats.Merges++
	m.Stats.MergePaths += len(results)
	// the outer model stays valid: merged call added no constraints
	return acc, true
}

func isVerifrt(fn *ssa.Function) bool {
	p := pkgOf(fn)
	return p != nil && strings.HasSuffix(p.Pkg.Path(), "/internal/verifrt")
}

// ---- statistics helpers ----

// FunctionsEncoded lists the functions executed symbolically, by package.
func (m *Machine) FunctionsEncoded() map[string]int {
	out := map[string]int{}
	for fn, n := range m.funcs {
		out[fn.String()] += n
	}
	return out
}

func sortedKeys(mm map[string]int) []string {
	var ks []string
	for k := range mm {
		ks = append(ks, k)
	}
	sort.Strings(ks)
	return ks
}

// assertLit asserts a path literal in the solver and records it in the
// byte-domain front solver.
func (m *Machine) assertLit(lit *Term) {
	if m.tt.single8(lit) == nil && m.ivalDecide(lit) == 1 {
		// implied by the byte domains (hence by the path condition): adding
		// it would change nothing
		return
	}
	m.solver.Assert(lit)
	m.domNote(lit, m.solver.Depth())
}

func (m *Machine) solverPopTo(depth int) {
	m.solver.PopTo(depth)
	m.domPopTo(depth)
}

// singleVarCall reports whether all symbolic scalar arguments together depend
// on exactly one 8-bit variable and no argument is a reference to mutable
// symbolic state (then the merged result is a single-variable term, which the
// byte-domain front solver decides exactly).
func (m *Machine) singleVarCall(args, env []value) bool {
	var v *Term
	check := func(a value) bool {
		switch a := a.(type) {
		case *Term:
			if a.IsConst() {
				return true
			}
			s := m.tt.supportOf(a)
			if s.many || len(s.vars) != 1 || s.vars[0].sort != 8 {
				return false
			}
			if v != nil && v != s.vars[0] {
				return false
			}
			v = s.vars[0]
			return true
		case Str:
			if a.b == nil {
				return true
			}
			for _, t := range a.b {
				if t.IsConst() {
					continue
				}
				s := m.tt.supportOf(t)
				if s.many || len(s.vars) != 1 || s.vars[0].sort != 8 {
					return false
				}
				if v != nil && v != s.vars[0] {
					return false
				}
				v = s.vars[0]
			}
			return true
		case float64, nil:
			return true
		}
		return false
	}
	for _, a := range args {
		if !check(a) {
			return false
		}
	}
	for _, a := range env {
		if !check(a) {
			return false
		}
	}
	return v != nil
}

func (m *Machine) noteFork(what string) {
	if m.solverWhat == nil {
		m.solverWhat = map[string]int{}
	}
	m.solverWhat["FORK "+what]++
}

// modelSatisfiesPC checks a model against every literal of the current
// assertion stack.
func (m *Machine) modelSatisfiesPC(mod Model) bool {
	ev := NewEvaluator(mod)
	for _, fr := range m.solver.frames {
		for _, lit := range fr {
			if ev.Eval(lit) != 1 {
				return false
			}
		}
	}
	return true
}

// ---- single-variable summaries by exhaustive evaluation ----

// trySummarize handles calls whose scalar/string arguments all depend on one
// 8-bit variable v: the callee is executed concretely for each of the 256
// values of v and the results are turned into a decision-tree term over v.
// The summary does not depend on the path condition and is cached per
// (function, argument terms).
func (m *Machine) trySummarize(caller *frame, fn *ssa.Function, args, env []value) (value, bool) {
	if len(env) != 0 || m.Opts.NoSummaries {
		return nil, false
	}
	var v *Term
	var key strings.Builder
	fmt.Fprintf(&key, "%p", fn)
	for _, a := range args {
		switch a := a.(type) {
		case *Term:
			fmt.Fprintf(&key, "|t%d", a.id)
			if a.IsConst() {
				continue
			}
			x := m.tt.single8(a)
			if x == nil || (v != nil && v != x) {
				return nil, false
			}
			v = x
		case Str:
			key.WriteString("|s")
			if a.b == nil {
				key.WriteString(a.s)
				continue
			}
			for _, t := range a.b {
				fmt.Fprintf(&key, ",%d", t.id)
				if t.IsConst() {
					continue
				}
				x := m.tt.single8(t)
				if x == nil || (v != nil && v != x) {
					return nil, false
				}
				v = x
			}
		default:
			return nil, false
		}
	}
	if v == nil {
		return nil, false
	}
	k := key.String()
	if r, ok := m.summaries[k]; ok {
		if r == nil {
			return nil, false
		}
		m.Stats.SummaryHits++
		return r, true
	}
	nres := fn.Signature.Results().Len()
	tabs := make([][256]uint64, nres)
	sorts := make([]Sort, nres)
	ok := true
	savedSteps := m.steps
	func() {
		m.mergeDepth++
		m.mergeStampBase = append(m.mergeStampBase, m.allocStamp)
		savedEx := m.ex
		defer func() {
			m.mergeDepth--
			m.mergeStampBase = m.mergeStampBase[:len(m.mergeStampBase)-1]
			m.ex = savedEx
			if r := recover(); r != nil {
				switch r.(type) {
				case pathEnd, *targetPanic:
					ok = false // fall back to path-condition-aware merging
				default:
					panic(r)
				}
			}
		}()
		m.ex = nil // concrete runs must not fork; a symbolic branch would dereference nil
		for i := 0; i < 256 && ok; i++ {
			cargs := make([]value, len(args))
			for j, a := range args {
				switch a := a.(type) {
				case *Term:
					if a.IsConst() {
						cargs[j] = a
					} else {
						cargs[j] = m.constLike(a, m.tt.valueTable(a, v)[i])
					}
				case Str:
					if a.b == nil {
						cargs[j] = a
						continue
					}
					bs := make([]byte, len(a.b))
					for k, t := range a.b {
						if t.IsConst() {
							bs[k] = byte(t.val)
						} else {
							bs[k] = byte(m.tt.valueTable(t, v)[i])
						}
					}
					cargs[j] = Str{s: string(bs)}
				}
			}
			r := m.callFunction(caller, fn, cargs, nil)
			var parts []value
			if t, isT := r.(Tuple); isT {
				parts = t
			} else {
				parts = []value{r}
			}
			if len(parts) != nres {
				ok = false
				break
			}
			for j, p := range parts {
				t, isTerm := p.(*Term)
				if !isTerm || !t.IsConst() {
					ok = false
					break
				}
				if i == 0 {
					sorts[j] = t.sort
				}
				tabs[j][i] = t.val
			}
		}
	}()
	m.steps = savedSteps + 64
	if !ok {
		m.summaries[k] = nil
		return nil, false
	}
	parts := make([]value, nres)
	for j := range parts {
		parts[j] = m.termFromTable(v, &tabs[j], sorts[j])
	}
	var out value = parts[0]
	if nres > 1 {
		out = Tuple(parts)
	}
	m.summaries[k] = out
	m.Stats.Summaries++
	return out, true
}

// constLike makes a constant of the same sort as t.
func (m *Machine) constLike(t *Term, v uint64) *Term {
	switch t.sort {
	case SortBool:
		return m.tt.Bool(v == 1)
	case SortInt:
		return m.tt.Int(int64(v))
	}
	return m.tt.BV(t.sort, v)
}

// termFromTable builds the reduced decision tree over the bits of v whose
// value is tab[v].
func (m *Machine) termFromTable(v *Term, tab *[256]uint64, sort Sort) *Term {
	var build func(lo, n int) *Term
	build = func(lo, n int) *Term {
		same := true
		for i := 1; i < n; i++ {
			if tab[lo+i] != tab[lo] {
				same = false
				break
			}
		}
		if same {
			if sort == SortBool {
				return m.tt.Bool(tab[lo] == 1)
			}
			if sort == SortInt {
				return m.tt.Int(int64(tab[lo]))
			}
			return m.tt.BV(sort, tab[lo])
		}
		h := n / 2
		bit := 0
		for x := h; x > 1; x >>= 1 {
			bit++
		}
		l, r := build(lo, h), build(lo+h, h)
		c := m.tt.Eq(m.tt.Extract(v, bit, bit), m.tt.BV(1, 1))
		return m.tt.Ite(c, r, l)
	}
	t := build(0, 256)
	if t.tab == nil && !t.IsConst() {
		// the value table is known: cache it
		cp := *tab
		t.tab = &cp
	}
	return t
}
