package sym

import (
	"fmt"
	"go/types"
	"os"
	"sort"

	"golang.org/x/tools/go/ssa"
)

// ---- goroutines under a baton ----

type vclock map[int]int

func (v vclock) copy() vclock {
	c := make(vclock, len(v))
	for k, x := range v {
		c[k] = x
	}
	return c
}

func (v vclock) join(o vclock) {
	for k, x := range o {
		if v[k] < x {
			v[k] = x
		}
	}
}

type goroutine struct {
	id      int
	name    string
	resume  chan struct{}
	done    bool
	parked  bool        // blocked until a waker clears it
	waitFn  func() bool // blocked until this returns true (nil: not waiting)
	waitWhy string
	vc      vclock
	// channel wake-up data
	mailbox  value
	mailOK   bool
	fired    int
	selCases []*selWait
}

type shadow struct {
	wg, wc int // last write: goroutine, clock
	reads  map[int]int
	what   string
}

type scheduler struct {
	m        *Machine
	gs       []*goroutine
	main     *goroutine
	abort    interface{} // panic value to re-raise in main
	exited   chan struct{}
	shadows  map[interface{}]*shadow
	switches int
}

func (m *Machine) ensureSched(fr *frame) *scheduler {
	if m.sched != nil {
		return m.sched
	}
	if m.initing > 0 {
		m.unsupported("channel or goroutine operation during package initialisation")
	}
	s := &scheduler{m: m, shadows: map[interface{}]*shadow{}, exited: make(chan struct{})}
	g0 := &goroutine{id: 0, name: "main", resume: make(chan struct{}), vc: vclock{0: 1}}
	s.gs = []*goroutine{g0}
	s.main = g0
	m.sched = s
	m.curG = g0
	for f := fr; f != nil; f = f.caller {
		f.g = g0
	}
	return s
}

func (m *Machine) goStmt(fr *frame, fn value, args []value) {
	if m.initing > 0 {
		// background goroutines of package initialisers are not modelled
		return
	}
	if m.mergeDepth > 0 {
		panic(pathEnd{kind: endAbortMerge, msg: "go statement inside merged call"})
	}
	s := m.ensureSched(fr)
	parent := m.curG
	g := &goroutine{id: len(s.gs), resume: make(chan struct{}), vc: parent.vc.copy()}
	g.vc[g.id] = 1
	parent.vc[parent.id]++
	g.name = fmt.Sprintf("g%d", g.id)
	s.gs = append(s.gs, g)
	if len(s.gs) > 8 {
		m.unsupported("more than 8 goroutines")
	}
	go func() {
		<-g.resume
		defer func() {
			r := recover()
			g.done = true
			if r != nil {
				if pe, ok := r.(pathEnd); ok && pe.kind == endKilled {
					s.exited <- struct{}{}
					return
				}
				// propagate to main
				s.abort = r
				m.curG = s.main
				s.main.parked = false
				s.main.waitFn = nil
				s.main.resume <- struct{}{}
				return
			}
			// normal exit: hand the baton on
			s.dispatch(g, "goroutine exit")
		}()
		if m.killing {
			panic(pathEnd{kind: endKilled})
		}
		m.call(nil, fn, args)
	}()
	s.yield(fr, "go statement")
}

func (s *scheduler) runnable() []*goroutine {
	var out []*goroutine
	for _, g := range s.gs {
		if g.done || g.parked {
			continue
		}
		if g.waitFn != nil && !g.waitFn() {
			continue
		}
		out = append(out, g)
	}
	return out
}

// yield is a scheduling point: another runnable goroutine may run first.
func (s *scheduler) yield(fr *frame, what string) {
	m := s.m
	cur := m.curG
	rs := s.runnable()
	if len(rs) <= 1 && (len(rs) == 0 || rs[0] == cur) {
		if len(rs) == 0 {
			s.deadlock()
		}
		return
	}
	if schedTrace {
		ids := ""
		for _, g := range rs {
			ids += fmt.Sprintf(" g%d", g.id)
		}
		fmt.Fprintf(os.Stderr, "SCHED %p pos=%d yield %s cur=g%d runnable=%s sw=%d\n", m, m.ex.pos, what, cur.id, ids, s.switches)
	}
	// prefer continuing the current goroutine as alternative 0
	sort.SliceStable(rs, func(i, j int) bool { return rs[i] == cur && rs[j] != cur })
	k := 0
	curRunnable := containsG(rs, cur)
	// preemption bounding: switching away from a goroutine that could go on
	// is a preemption; when the bound is used up the current goroutine
	// continues until it blocks or exits
	if s.m.Opts.MaxSwitches == 0 || s.switches < s.m.Opts.MaxSwitches || !curRunnable {
		k = m.choice(len(rs), "schedule at "+what)
	}
	next := rs[k]
	if next == cur {
		return
	}
	if curRunnable {
		s.switches++
	}
	s.switchTo(cur, next)
}

func containsG(rs []*goroutine, g *goroutine) bool {
	for _, r := range rs {
		if r == g {
			return true
		}
	}
	return false
}

// switchTo passes the baton from cur to next and waits until cur is resumed.
func (s *scheduler) switchTo(cur, next *goroutine) {
	m := s.m
	m.curG = next
	next.waitFn = nil
	next.resume <- struct{}{}
	<-cur.resume
	s.afterResume(cur)
}

func (s *scheduler) afterResume(cur *goroutine) {
	m := s.m
	if m.killing && cur != s.main {
		panic(pathEnd{kind: endKilled})
	}
	if cur == s.main && s.abort != nil {
		r := s.abort
		s.abort = nil
		panic(r)
	}
	m.curG = cur
}

// block parks the current goroutine until it becomes runnable again.
func (s *scheduler) block(why string) {
	m := s.m
	cur := m.curG
	cur.waitWhy = why
	for {
		rs := s.runnable()
		if containsG(rs, cur) {
			return
		}
		if len(rs) == 0 {
			s.deadlock()
		}
		k := m.choice(len(rs), "schedule while blocked on "+why)
		s.switchTo(cur, rs[k])
	}
}

// dispatch is called by an exiting goroutine to hand over the baton.
func (s *scheduler) dispatch(g *goroutine, what string) {
	m := s.m
	rs := s.runnable()
	if len(rs) == 0 {
		// everyone else is blocked: deadlock, reported in main
		s.abort = pathEnd{kind: endViolation, msg: "deadlock"}
		s.recordDeadlock()
		m.curG = s.main
		s.main.parked = false
		s.main.waitFn = nil
		s.main.resume <- struct{}{}
		return
	}
	k := 0
	func() {
		defer func() {
			if r := recover(); r != nil {
				s.abort = r
				m.curG = s.main
				s.main.parked = false
				s.main.waitFn = nil
				s.main.resume <- struct{}{}
				k = -1
			}
		}()
		k = m.choice(len(rs), "schedule at "+what)
	}()
	if k < 0 {
		return
	}
	next := rs[k]
	m.curG = next
	next.waitFn = nil
	next.resume <- struct{}{}
}

func (s *scheduler) recordDeadlock() {
	m := s.m
	desc := "deadlock: all goroutines blocked:"
	for _, g := range s.gs {
		if !g.done {
			desc += fmt.Sprintf(" %s(%s)", g.name, g.waitWhy)
		}
	}
	func() {
		defer func() { recover() }()
		mod := m.ensureModel()
		m.recordViolation(desc, "scheduler", mod, false)
	}()
}

func (s *scheduler) deadlock() {
	s.recordDeadlock()
	panic(pathEnd{kind: endViolation, msg: "deadlock"})
}

// killAll terminates all interpreted goroutines at the end of a path.
func (s *scheduler) killAll() {
	m := s.m
	m.killing = true
	for _, g := range s.gs {
		if g == s.main || g.done {
			continue
		}
		g.resume <- struct{}{}
		<-s.exited
	}
	m.killing = false
	m.curG = nil
}

// ---- happens-before race detection ----

func (s *scheduler) access(p Ptr, write bool) {
	if p.obj == nil || p.obj.what == "local" || p.p == nil {
		return
	}
	s.accessKey(p.p, p.obj.what, write)
}

func (s *scheduler) accessObj(o *Obj, write bool) {
	if o == nil {
		return
	}
	s.accessKey(o, o.what, write)
}

func (s *scheduler) accessKey(key interface{}, what string, write bool) {
	m := s.m
	if m.initing > 0 || len(s.gs) < 2 {
		return
	}
	g := m.curG
	sh := s.shadows[key]
	if sh == nil {
		sh = &shadow{wg: -1, reads: map[int]int{}, what: what}
		s.shadows[key] = sh
	}
	race := ""
	if sh.wg >= 0 && sh.wg != g.id && sh.wc > g.vc[sh.wg] {
		race = fmt.Sprintf("write by g%d / %s by g%d", sh.wg, rw(write), g.id)
	}
	if write {
		for rg, rc := range sh.reads {
			if rg != g.id && rc > g.vc[rg] {
				race = fmt.Sprintf("read by g%d / write by g%d", rg, g.id)
			}
		}
		sh.wg, sh.wc = g.id, g.vc[g.id]
		sh.reads = map[int]int{}
	} else {
		sh.reads[g.id] = g.vc[g.id]
	}
	if race != "" {
		mod := m.ensureModel()
		m.recordViolation("data race on "+what+": "+race+" (no happens-before order)", "race detector", mod, false)
		panic(pathEnd{kind: endViolation, msg: "data race"})
	}
}

func rw(w bool) string {
	if w {
		return "write"
	}
	return "read"
}

// acquire / release on a synchronisation object's clock.
func (s *scheduler) acquire(vc *vclock) {
	if *vc != nil {
		s.m.curG.vc.join(*vc)
	}
}

func (s *scheduler) release(vc *vclock) {
	g := s.m.curG
	if *vc == nil {
		*vc = vclock{}
	}
	(*vc).join(g.vc)
	g.vc[g.id]++
}

// ---- channels ----

type selWait struct {
	g    *goroutine
	ch   *Chan
	send bool
	v    value
	idx  int
}

type Chan struct {
	obj    *Obj
	cap    int
	buf    []value
	closed bool
	vc     vclock
	sendq  []*selWait
	recvq  []*selWait
}

func (m *Machine) newChan(n int) *Chan {
	return &Chan{obj: m.newObj("chan"), cap: n}
}

func (m *Machine) chanNote(ch *Chan) {
	if m.initing > 0 && m.sched != nil {
		// never interact with the schedule of the path during an initialiser
		return
	}
	if m.mergeDepth > 0 {
		panic(pathEnd{kind: endAbortMerge, msg: "channel operation inside merged call"})
	}
	if ch != nil && ch.obj.stamp == 0 && m.initing == 0 && !(ch.closed && len(ch.buf) == 0) {
		// (a channel closed by its initialiser, like context's closedchan, is
		// immutable from here on: receives complete at once and change nothing)
		m.unsupported("operation on a channel created during package initialisation")
	}
}

func removeWait(q []*selWait, w *selWait) []*selWait {
	for i, x := range q {
		if x == w {
			return append(q[:i:i], q[i+1:]...)
		}
	}
	return q
}

// wake completes a parked goroutine's channel operation.
func (s *scheduler) wake(w *selWait, v value, ok bool) {
	g := w.g
	for _, c := range g.selCases {
		if c.send {
			c.ch.sendq = removeWait(c.ch.sendq, c)
		} else {
			c.ch.recvq = removeWait(c.ch.recvq, c)
		}
	}
	g.selCases = nil
	g.mailbox, g.mailOK, g.fired = v, ok, w.idx
	g.parked = false
}

func (m *Machine) schedFor(fr *frame) *scheduler {
	return m.ensureSched(fr)
}

// trySend attempts a non-blocking send; reports success.
func (m *Machine) trySend(s *scheduler, ch *Chan, v value) bool {
	if ch.closed {
		m.goPanic("send on closed channel")
	}
	if len(ch.recvq) > 0 {
		w := ch.recvq[0]
		// hand-off: happens-before both ways for the rendezvous
		s.release(&ch.vc)
		w.g.vc.join(ch.vc)
		m.curG.vc.join(w.g.vc)
		s.wake(w, copyVal(v), true)
		return true
	}
	if len(ch.buf) < ch.cap {
		s.release(&ch.vc)
		ch.buf = append(ch.buf, copyVal(v))
		return true
	}
	return false
}

// tryRecv attempts a non-blocking receive.
func (m *Machine) tryRecv(s *scheduler, ch *Chan, et types.Type) (v value, ok bool, done bool) {
	if len(ch.buf) > 0 {
		v = ch.buf[0]
		ch.buf = append([]value(nil), ch.buf[1:]...)
		s.acquire(&ch.vc)
		if len(ch.sendq) > 0 {
			w := ch.sendq[0]
			ch.buf = append(ch.buf, w.v)
			ch.vc.join(w.g.vc)
			s.wake(w, nil, true)
		}
		return v, true, true
	}
	if len(ch.sendq) > 0 {
		w := ch.sendq[0]
		v = w.v
		m.curG.vc.join(w.g.vc)
		w.g.vc.join(m.curG.vc)
		m.curG.vc[m.curG.id]++
		s.wake(w, nil, true)
		return v, true, true
	}
	if ch.closed {
		s.acquire(&ch.vc)
		return m.zero(et), false, true
	}
	return nil, false, false
}

func (m *Machine) chanSend(fr *frame, ch *Chan, v value) {
	m.chanNote(ch)
	if m.initing > 0 {
		m.unsupported("channel communication during package initialisation")
	}
	s := m.schedFor(fr)
	s.yield(fr, "chan send")
	if ch == nil {
		m.curG.parked = true
		s.block("send on nil channel")
		return
	}
	if m.trySend(s, ch, v) {
		return
	}
	g := m.curG
	w := &selWait{g: g, ch: ch, send: true, v: copyVal(v)}
	ch.sendq = append(ch.sendq, w)
	g.selCases = []*selWait{w}
	g.parked = true
	s.block("chan send")
	if !g.mailOK {
		m.goPanic("send on closed channel")
	}
}

func (m *Machine) chanRecv(fr *frame, ch *Chan, et types.Type) (value, bool) {
	m.chanNote(ch)
	if m.initing > 0 {
		m.unsupported("channel communication during package initialisation")
	}
	s := m.schedFor(fr)
	s.yield(fr, "chan receive")
	if ch == nil {
		m.curG.parked = true
		s.block("receive from nil channel")
		return nil, false
	}
	if v, ok, done := m.tryRecv(s, ch, et); done {
		return v, ok
	}
	g := m.curG
	w := &selWait{g: g, ch: ch}
	ch.recvq = append(ch.recvq, w)
	g.selCases = []*selWait{w}
	g.parked = true
	s.block("chan receive")
	if !g.mailOK {
		return m.zero(et), false
	}
	return g.mailbox, true
}

func (m *Machine) chanClose(fr *frame, ch *Chan) {
	m.chanNote(ch)
	if ch == nil {
		m.goPanic("close of nil channel")
	}
	if m.initing > 0 {
		// package initialisers run outside of the schedule
		ch.closed = true
		return
	}
	s := m.schedFor(fr)
	s.yield(fr, "chan close")
	if ch.closed {
		m.goPanic("close of closed channel")
	}
	ch.closed = true
	s.release(&ch.vc)
	for len(ch.recvq) > 0 {
		w := ch.recvq[0]
		w.g.vc.join(ch.vc)
		s.wake(w, nil, false)
	}
	for len(ch.sendq) > 0 {
		w := ch.sendq[0]
		s.wake(w, nil, false)
	}
}

func (m *Machine) selectStmt(fr *frame, instr *ssa.Select) value {
	if m.initing > 0 {
		m.unsupported("select during package initialisation")
	}
	s := m.schedFor(fr)
	s.yield(fr, "select")
	type cs struct {
		ch   *Chan
		send bool
		v    value
		et   types.Type
	}
	var cases []cs
	for _, st := range instr.States {
		c := cs{ch: fr.get(st.Chan).(*Chan), send: st.Dir == types.SendOnly}
		m.chanNote(c.ch)
		c.et = st.Chan.Type().Underlying().(*types.Chan).Elem()
		if c.send {
			c.v = fr.get(st.Send)
		}
		cases = append(cases, c)
	}
	result := func(chosen int, recvOK bool, v value) value {
		r := Tuple{m.intVal(int64(chosen)), m.tt.Bool(recvOK)}
		for i, c := range cases {
			if !c.send {
				if i == chosen && v != nil {
					r = append(r, v)
				} else {
					r = append(r, m.zero(c.et))
				}
			}
		}
		return r
	}
	// ready cases
	var ready []int
	for i, c := range cases {
		if c.ch == nil {
			continue
		}
		if c.send {
			if c.ch.closed || len(c.ch.recvq) > 0 || len(c.ch.buf) < c.ch.cap {
				ready = append(ready, i)
			}
		} else if len(c.ch.buf) > 0 || len(c.ch.sendq) > 0 || c.ch.closed {
			ready = append(ready, i)
		}
	}
	if len(ready) > 0 {
		k := ready[m.choice(len(ready), "select among ready cases")]
		c := cases[k]
		if c.send {
			m.trySend(s, c.ch, c.v)
			return result(k, false, nil)
		}
		v, ok, _ := m.tryRecv(s, c.ch, c.et)
		return result(k, ok, v)
	}
	if !instr.Blocking {
		return result(-1, false, nil)
	}
	g := m.curG
	g.selCases = nil
	for i, c := range cases {
		if c.ch == nil {
			continue
		}
		w := &selWait{g: g, ch: c.ch, send: c.send, idx: i}
		if c.send {
			w.v = copyVal(c.v)
			c.ch.sendq = append(c.ch.sendq, w)
		} else {
			c.ch.recvq = append(c.ch.recvq, w)
		}
		g.selCases = append(g.selCases, w)
	}
	g.parked = true
	s.block("select")
	k := g.fired
	if cases[k].send {
		if !g.mailOK {
			m.goPanic("send on closed channel")
		}
		return result(k, false, nil)
	}
	if !g.mailOK {
		return result(k, false, nil)
	}
	return result(k, true, g.mailbox)
}

var schedTrace = os.Getenv("GOSYM_SCHEDTRACE") != ""

// quiesce runs the other goroutines (in every order) until none of them is
// runnable any more.
func (s *scheduler) quiesce() {
	m := s.m
	cur := m.curG
	for {
		var others []*goroutine
		for _, g := range s.runnable() {
			if g != cur {
				others = append(others, g)
			}
		}
		if len(others) == 0 {
			return
		}
		k := m.choice(len(others), "schedule while quiescing")
		s.switchTo(cur, others[k])
	}
}
