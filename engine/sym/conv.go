package sym

import (
	"fmt"
	"go/types"
	"math"
	"unicode/utf8"

	"golang.org/x/tools/go/ssa"
)

// havocFloat is the result of a float operation on symbolic operands under
// the "havoc" policy: an unconstrained float.
type havocFloat struct{}

func (m *Machine) conv(tDst, tSrc types.Type, x value) value {
	ut_src := tSrc.Underlying()
	ut_dst := tDst.Underlying()

	switch ut_src := ut_src.(type) {
	case *types.Pointer:
		// *T to unsafe.Pointer
		if isUnsafePointer(ut_dst) {
			return x
		}
		if _, ok := ut_dst.(*types.Pointer); ok {
			return x
		}
	case *types.Slice:
		s := x.(Slice)
		switch ut_dst := ut_dst.(type) {
		case *types.Basic: // []byte / []rune to string
			if !isString(ut_dst) {
				break
			}
			et := ut_src.Elem().Underlying().(*types.Basic)
			if et.Kind() == types.Uint8 {
				if m.sched != nil && len(s.a) > 0 {
					for i := range s.a {
						m.sched.access(Ptr{obj: s.obj, p: &s.a[i]}, false)
					}
				}
				b := make([]*Term, len(s.a))
				for i, e := range s.a {
					b[i] = e.(*Term)
				}
				return strFromTerms(b)
			}
			// []rune
			var out []*Term
			for _, e := range s.a {
				out = append(out, m.encodeRune(e.(*Term))...)
			}
			return strFromTerms(out)
		case *types.Array:
			n := int(ut_dst.Len())
			if len(s.a) < n {
				m.goPanic("runtime error: cannot convert slice to array: slice too short")
			}
			out := make(Array, n)
			for i := range out {
				out[i] = copyVal(s.a[i])
			}
			return out
		case *types.Slice:
			return x
		}
	case *types.Basic:
		if isUnsafePointer(ut_src) {
			switch {
			case isUnsafePointer(ut_dst):
				return x
			case isInteger(ut_dst): // uintptr(unsafe.Pointer)
				p := x.(Ptr)
				if p.isNil() {
					return m.intConst(ut_dst, 0)
				}
				return PtrInt{ptr: p}
			}
			if _, ok := ut_dst.(*types.Pointer); ok {
				return m.retypePtr(x.(Ptr), ut_dst.(*types.Pointer).Elem())
			}
		}
		if pi, ok := x.(PtrInt); ok {
			if isUnsafePointer(ut_dst) {
				return m.resolvePtrInt(pi)
			}
			if isInteger(ut_dst) {
				return pi
			}
		}
		if isString(ut_src) {
			s := x.(Str)
			switch ut_dst := ut_dst.(type) {
			case *types.Slice:
				et := ut_dst.Elem().Underlying().(*types.Basic)
				if et.Kind() == types.Uint8 {
					a := make([]value, s.Len())
					for i := range a {
						a[i] = m.strAt(s, i)
					}
					return Slice{obj: m.newObj("bytes"), a: a}
				}
				// []rune
				var a []value
				for i := 0; i < s.Len(); {
					r, sz := m.decodeRune(s, i)
					a = append(a, r)
					i += sz
				}
				if a == nil {
					a = []value{}
				}
				return Slice{obj: m.newObj("runes"), a: a}
			case *types.Basic:
				if isString(ut_dst) {
					return x
				}
			}
		}
		if isInteger(ut_src) {
			t, ok := x.(*Term)
			if !ok {
				panic(fmt.Sprintf("conv: integer source holds %T", x))
			}
			if b, ok := ut_dst.(*types.Basic); ok {
				switch {
				case b.Info()&types.IsInteger != 0:
					return m.convInt(t, ut_src, b)
				case b.Info()&types.IsString != 0:
					// string(rune)
					if !t.IsConst() {
						if t.sort == 32 {
							return strFromTerms(m.encodeRune(t))
						}
						r := m.concreteIntT(t, tSrc, "rune to string conversion")
						return mkStr(string(rune(r)))
					}
					var r rune
					if isSigned(ut_src) {
						v := t.SConst()
						if v < math.MinInt32 || v > math.MaxInt32 {
							v = utf8.RuneError
						}
						r = rune(v)
					} else {
						v := t.Const()
						if v > math.MaxInt32 {
							v = utf8.RuneError
						}
						r = rune(v)
					}
					return mkStr(string(r))
				case b.Info()&types.IsFloat != 0:
					if !t.IsConst() {
						switch m.Opts.FloatPolicy {
						case "havoc":
							return havocFloat{}
						}
						m.unsupported("conversion of symbolic integer to float")
					}
					var f float64
					if isSigned(ut_src) {
						f = float64(t.SConst())
					} else {
						f = float64(t.Const())
					}
					if b.Kind() == types.Float32 {
						f = float64(float32(f))
					}
					return f
				case b.Info()&types.IsComplex != 0:
					m.unsupported("complex conversion")
				case b.Kind() == types.UnsafePointer:
					if t.IsConst() && t.Const() == 0 {
						return Ptr{}
					}
					m.unsupported("conversion of integer to unsafe.Pointer")
				}
			}
		}
		if isFloat(ut_src) {
			if _, ok := x.(havocFloat); ok {
				if b, ok := ut_dst.(*types.Basic); ok && b.Info()&types.IsInteger != 0 {
					// unconstrained result
					return m.freshVar(intWidth(b), "havoc float->int")
				}
				return x
			}
			f := x.(float64)
			if b, ok := ut_dst.(*types.Basic); ok {
				switch {
				case b.Info()&types.IsFloat != 0:
					if b.Kind() == types.Float32 {
						return float64(float32(f))
					}
					return f
				case b.Info()&types.IsInteger != 0:
					if isSigned(b) {
						return m.intConst(b, uint64(int64(f)))
					}
					return m.intConst(b, uint64(f))
				}
			}
		}
	}
	panic(fmt.Sprintf("conv: unsupported %v -> %v (%T)", tSrc, tDst, x))
}

// convInt converts between integer types.
func (m *Machine) convInt(t *Term, src, dst types.Type) value {
	ws, wd := intWidth(src), intWidth(dst)
	if t.sort == SortInt {
		return m.wrapIntFrom(t, src, dst)
	}
	switch {
	case wd == ws:
		return t
	case wd < ws:
		return m.tt.Extract(t, int(wd)-1, 0)
	case isSigned(src):
		return m.tt.SExt(t, wd)
	default:
		return m.tt.ZExt(t, wd)
	}
}

// retypePtr handles (*T)(unsafe.Pointer(p)).  The pointer keeps designating
// the same slot; the engine checks nothing about T (loads return what the
// slot holds), which is sound for the layout-preserving casts that occur in
// the code under test (container_of, noescape, string/slice headers are
// intercepted earlier).
func (m *Machine) retypePtr(p Ptr, elem types.Type) Ptr {
	return p
}

// resolvePtrInt turns pointer+delta back into a pointer.
func (m *Machine) resolvePtrInt(pi PtrInt) Ptr {
	p := pi.ptr
	if pi.delta == 0 {
		return p
	}
	// container_of: pointer to field f of a struct minus offsetof(f)
	cur := p
	delta := pi.delta
	for delta < 0 && cur.up != nil {
		off := m.fieldOffset(cur.upT, cur.fld)
		if -delta < off {
			break
		}
		delta += off
		cur = *cur.up
		if delta == 0 {
			return cur
		}
	}
	// pointer into an array element sequence
	if delta > 0 && p.arr != nil && p.idx == nil {
		m.unsupported("unsafe pointer addition within arrays")
	}
	return Ptr{bad: fmt.Sprintf("pointer %+d bytes outside of its object (%s)", pi.delta, objWhat(p.obj))}
}

func objWhat(o *Obj) string {
	if o == nil {
		return "?"
	}
	return o.what
}

func (m *Machine) fieldOffset(st *types.Struct, fld int) int64 {
	fields := make([]*types.Var, st.NumFields())
	for i := range fields {
		fields[i] = st.Field(i)
	}
	offs := m.P.Sizes.Offsetsof(fields)
	return offs[fld]
}

// freshVar creates a new symbolic input.
func (m *Machine) freshVar(w Sort, what string) *Term {
	if m.mergeDepth > 0 {
		panic(pathEnd{kind: endAbortMerge, msg: "nondeterministic draw inside merged call"})
	}
	idx := m.nvars
	m.nvars++
	m.draws = append(m.draws, draw{varIdx: idx, w: w, what: what})
	return m.tt.VarW(idx, w)
}

var _ = ssa.Function{}

// encodeRune returns the UTF-8 encoding of a (possibly symbolic) 32-bit rune,
// forking on the encoding length exactly as utf8.AppendRune does.
func (m *Machine) encodeRune(r *Term) []*Term {
	tt := m.tt
	if r.IsConst() {
		bs := utf8.AppendRune(nil, rune(int32(r.val)))
		out := make([]*Term, len(bs))
		for i, b := range bs {
			out[i] = tt.BV(8, uint64(b))
		}
		return out
	}
	if r.sort != 32 {
		m.unsupported("rune encoding of a %d-bit term", int(r.sort))
	}
	lo8 := func(t *Term) *Term { return tt.Extract(t, 7, 0) }
	shr := func(t *Term, n uint64) *Term { return tt.Bin(OpLShr, t, tt.BV(32, n)) }
	cont := func(t *Term) *Term {
		return lo8(tt.Bin(OpBOr, tt.Bin(OpBAnd, t, tt.BV(32, 0x3F)), tt.BV(32, 0x80)))
	}
	// compare as unsigned: negative runes are > MaxRune and become RuneError
	if m.branch(tt.Cmp(OpULt, r, tt.BV(32, 0x80)), "utf8 encode: 1 byte") {
		return []*Term{lo8(r)}
	}
	if m.branch(tt.Cmp(OpULt, r, tt.BV(32, 0x800)), "utf8 encode: 2 bytes") {
		return []*Term{lo8(tt.Bin(OpBOr, shr(r, 6), tt.BV(32, 0xC0))), cont(r)}
	}
	bad := tt.Or(tt.Cmp(OpULt, tt.BV(32, 0x10FFFF), r),
		tt.And(tt.Cmp(OpULe, tt.BV(32, 0xD800), r), tt.Cmp(OpULe, r, tt.BV(32, 0xDFFF))))
	if m.branch(bad, "utf8 encode: invalid rune") {
		return []*Term{tt.BV(8, 0xEF), tt.BV(8, 0xBF), tt.BV(8, 0xBD)}
	}
	if m.branch(tt.Cmp(OpULt, r, tt.BV(32, 0x10000)), "utf8 encode: 3 bytes") {
		return []*Term{lo8(tt.Bin(OpBOr, shr(r, 12), tt.BV(32, 0xE0))), cont(shr(r, 6)), cont(r)}
	}
	return []*Term{lo8(tt.Bin(OpBOr, shr(r, 18), tt.BV(32, 0xF0))), cont(shr(r, 12)), cont(shr(r, 6)), cont(r)}
}
