package sym

import (
	"fmt"
	"go/types"
	"strings"

	"golang.org/x/tools/go/ssa"
)

// value is one of:
//
//	*Term                 bool / integer scalars (Bool or BV sort; Int in int-mode)
//	float64               floating point (concrete only)
//	complex128            complex (concrete only)
//	Str                   string
//	Struct, Array, Tuple  aggregates (by value)
//	Slice                 slice
//	Ptr                   pointer (incl. unsafe.Pointer)
//	PtrInt                uintptr obtained from a pointer
//	*Map                  map
//	Iface                 interface value
//	*Closure, *ssa.Function, *ssa.Builtin  function values
//	*Chan                 channel
//	*mapIter, *strIter    range iterators
type value interface{}

type Struct []value
type Array []value
type Tuple []value

// Str is a string of concrete length.  If b != nil the content is b (each a
// BV8 term), otherwise the content is the Go string s.
type Str struct {
	s string
	b []*Term
}

// Obj identifies one allocation.
type Obj struct {
	id    int
	stamp int // allocation counter at creation
	what  string
	// race detection metadata, by slot address
}

// Ptr is a pointer.  The nil pointer has p == nil and arr == nil.
type Ptr struct {
	obj *Obj
	p   *value // the slot pointed to (nil if symbolic element pointer)
	// element pointers: arr[0] is the element pointed to (arr extends to the
	// end of the backing array); with idx != nil the pointer designates
	// arr[idx] for a symbolic idx.
	arr []value
	idx *Term
	// field pointers remember the enclosing struct pointer (for
	// container_of-style unsafe arithmetic).
	up  *Ptr
	fld int
	upT *types.Struct
	// bad != "" marks an invalid pointer produced by unsafe arithmetic.
	bad string
}

func (p Ptr) isNil() bool { return p.p == nil && p.arr == nil && p.bad == "" }

// PtrInt is uintptr(unsafe.Pointer(p)) + delta.
type PtrInt struct {
	ptr   Ptr
	delta int64
}

type Slice struct {
	obj *Obj
	a   []value // nil for the nil slice
}

type Iface struct {
	t types.Type // nil for the nil interface
	v value
}

type Closure struct {
	fn  *ssa.Function
	env []value
}

type mapEntry struct {
	k, v    value
	deleted bool
}

type Map struct {
	obj     *Obj
	keyT    types.Type
	entries []mapEntry
	n       int // live entries
}

// ---- strings ----

func mkStr(s string) Str { return Str{s: s} }

func (s Str) Len() int {
	if s.b != nil {
		return len(s.b)
	}
	return len(s.s)
}

func (s Str) concrete() (string, bool) {
	if s.b == nil {
		return s.s, true
	}
	var sb strings.Builder
	for _, t := range s.b {
		if !t.IsConst() {
			return "", false
		}
		sb.WriteByte(byte(t.val))
	}
	return sb.String(), true
}

func (m *Machine) strAt(s Str, i int) *Term {
	if s.b != nil {
		return s.b[i]
	}
	return m.tt.BV(8, uint64(s.s[i]))
}

func (m *Machine) strBytes(s Str) []*Term {
	if s.b != nil {
		return s.b
	}
	out := make([]*Term, len(s.s))
	for i := 0; i < len(s.s); i++ {
		out[i] = m.tt.BV(8, uint64(s.s[i]))
	}
	return out
}

func strFromTerms(b []*Term) Str {
	// normalise fully concrete content to a Go string
	all := true
	for _, t := range b {
		if !t.IsConst() {
			all = false
			break
		}
	}
	if all {
		bs := make([]byte, len(b))
		for i, t := range b {
			bs[i] = byte(t.val)
		}
		return Str{s: string(bs)}
	}
	if b == nil {
		b = []*Term{}
	}
	return Str{b: b}
}

func (m *Machine) strSlice(s Str, lo, hi int) Str {
	if s.b != nil {
		return strFromTerms(s.b[lo:hi])
	}
	return Str{s: s.s[lo:hi]}
}

func (m *Machine) strConcat(a, b Str) Str {
	if a.b == nil && b.b == nil {
		return Str{s: a.s + b.s}
	}
	if a.Len() == 0 {
		return b
	}
	if b.Len() == 0 {
		return a
	}
	out := make([]*Term, 0, a.Len()+b.Len())
	out = append(out, m.strBytes(a)...)
	out = append(out, m.strBytes(b)...)
	return Str{b: out}
}

func (m *Machine) strEq(a, b Str) *Term {
	if a.Len() != b.Len() {
		return m.tt.False
	}
	if a.b == nil && b.b == nil {
		return m.tt.Bool(a.s == b.s)
	}
	r := m.tt.True
	for i := 0; i < a.Len(); i++ {
		r = m.tt.And(r, m.tt.Eq(m.strAt(a, i), m.strAt(b, i)))
		if r.IsFalse() {
			return r
		}
	}
	return r
}

// strLess returns a < b (lexicographic, bytewise).
func (m *Machine) strLess(a, b Str) *Term {
	if a.b == nil && b.b == nil {
		return m.tt.Bool(a.s < b.s)
	}
	n := a.Len()
	if b.Len() < n {
		n = b.Len()
	}
	// from the end: less_i = a[i]<b[i] || (a[i]==b[i] && less_{i+1})
	r := m.tt.Bool(a.Len() < b.Len())
	for i := n - 1; i >= 0; i-- {
		x, y := m.strAt(a, i), m.strAt(b, i)
		r = m.tt.Or(m.tt.Cmp(OpULt, x, y), m.tt.And(m.tt.Eq(x, y), r))
	}
	return r
}

// ---- type helpers ----

func isSigned(t types.Type) bool {
	b, ok := t.Underlying().(*types.Basic)
	return ok && b.Info()&types.IsInteger != 0 && b.Info()&types.IsUnsigned == 0
}

func intWidth(t types.Type) Sort {
	b, ok := t.Underlying().(*types.Basic)
	if !ok {
		return 0
	}
	switch b.Kind() {
	case types.Int8, types.Uint8:
		return 8
	case types.Int16, types.Uint16:
		return 16
	case types.Int32, types.Uint32:
		return 32
	case types.Int, types.Uint, types.Int64, types.Uint64, types.Uintptr, types.UntypedInt, types.UntypedRune:
		if b.Kind() == types.UntypedRune {
			return 32
		}
		return 64
	}
	return 0
}

func isInteger(t types.Type) bool {
	b, ok := t.Underlying().(*types.Basic)
	return ok && b.Info()&types.IsInteger != 0
}

func isBool(t types.Type) bool {
	b, ok := t.Underlying().(*types.Basic)
	return ok && b.Info()&types.IsBoolean != 0
}

func isString(t types.Type) bool {
	b, ok := t.Underlying().(*types.Basic)
	return ok && b.Info()&types.IsString != 0
}

func isFloat(t types.Type) bool {
	b, ok := t.Underlying().(*types.Basic)
	return ok && b.Info()&types.IsFloat != 0
}

func isUnsafePointer(t types.Type) bool {
	b, ok := t.Underlying().(*types.Basic)
	return ok && b.Kind() == types.UnsafePointer
}

// zero returns the zero value of type t.
func (m *Machine) zero(t types.Type) value {
	switch t := t.(type) {
	case *types.Basic:
		switch {
		case t.Kind() == types.UntypedNil:
			panic("untyped nil has no zero value")
		case t.Info()&types.IsBoolean != 0:
			return m.tt.False
		case t.Info()&types.IsInteger != 0:
			return m.intConst(t, 0)
		case t.Info()&types.IsFloat != 0:
			return float64(0)
		case t.Info()&types.IsComplex != 0:
			return complex128(0)
		case t.Info()&types.IsString != 0:
			return Str{}
		case t.Kind() == types.UnsafePointer:
			return Ptr{}
		}
	case *types.Pointer:
		return Ptr{}
	case *types.Array:
		a := make(Array, t.Len())
		for i := range a {
			a[i] = m.zero(t.Elem())
		}
		return a
	case *types.Slice:
		return Slice{}
	case *types.Struct:
		s := make(Struct, t.NumFields())
		for i := range s {
			s[i] = m.zero(t.Field(i).Type())
		}
		return s
	case *types.Tuple:
		if t.Len() == 1 {
			return m.zero(t.At(0).Type())
		}
		s := make(Tuple, t.Len())
		for i := range s {
			s[i] = m.zero(t.At(i).Type())
		}
		return s
	case *types.Chan:
		return (*Chan)(nil)
	case *types.Map:
		return (*Map)(nil)
	case *types.Signature:
		return (*Closure)(nil)
	case *types.Interface:
		return Iface{}
	case *types.Named, *types.Alias:
		return m.zero(t.Underlying())
	case *types.TypeParam:
		panic("zero of type parameter (generic function not instantiated)")
	}
	panic(fmt.Sprintf("zero: unexpected type %T %v", t, t))
}

func (m *Machine) intConst(t types.Type, v uint64) *Term {
	if m.intMode {
		// represent in range of type
		w := intWidth(t)
		if isSigned(t) {
			return m.tt.Int(sext(v, w))
		}
		if w == 64 && v>>63 != 0 {
			panic("int-mode: uint64 constant above MaxInt64 unsupported")
		}
		return m.tt.Int(int64(v & mask(w)))
	}
	return m.tt.BV(intWidth(t), v)
}

// copyVal returns a copy of v that shares no mutable aggregate storage.
func copyVal(v value) value {
	switch v := v.(type) {
	case Struct:
		c := make(Struct, len(v))
		for i, f := range v {
			c[i] = copyVal(f)
		}
		return c
	case Array:
		c := make(Array, len(v))
		for i, f := range v {
			c[i] = copyVal(f)
		}
		return c
	case Tuple:
		panic("copy of tuple")
	}
	return v
}

// eqValue computes x == y for comparable values of type t.
func (m *Machine) eqValue(t types.Type, x, y value) *Term {
	switch x := x.(type) {
	case *Term:
		return m.tt.Eq(x, y.(*Term))
	case float64:
		return m.tt.Bool(x == y.(float64))
	case complex128:
		return m.tt.Bool(x == y.(complex128))
	case Str:
		return m.strEq(x, y.(Str))
	case Struct:
		y := y.(Struct)
		st := t.Underlying().(*types.Struct)
		r := m.tt.True
		for i := range x {
			if st.Field(i).Name() == "_" {
				continue
			}
			r = m.tt.And(r, m.eqValue(st.Field(i).Type(), x[i], y[i]))
		}
		return r
	case Array:
		y := y.(Array)
		et := t.Underlying().(*types.Array).Elem()
		r := m.tt.True
		for i := range x {
			r = m.tt.And(r, m.eqValue(et, x[i], y[i]))
		}
		return r
	case Ptr:
		return m.ptrEq(x, y.(Ptr))
	case PtrInt:
		if yy, ok := y.(PtrInt); ok {
			return m.tt.And(m.ptrEq(x.ptr, yy.ptr), m.tt.Bool(x.delta == yy.delta))
		}
		return m.tt.False
	case Iface:
		y := y.(Iface)
		if x.t == nil || y.t == nil {
			return m.tt.Bool(x.t == nil && y.t == nil)
		}
		if !types.Identical(x.t, y.t) {
			return m.tt.False
		}
		if !types.Comparable(x.t) {
			m.goPanic("runtime error: comparing uncomparable type " + x.t.String())
		}
		return m.eqValue(x.t, x.v, y.v)
	case *Map:
		return m.tt.Bool(x == y.(*Map))
	case *Chan:
		return m.tt.Bool(x == y.(*Chan))
	case Slice:
		// only comparison with nil is legal
		yy := y.(Slice)
		return m.tt.Bool(x.a == nil && yy.a == nil)
	case *Closure:
		yc, _ := y.(*Closure)
		if x == nil && y == nil {
			return m.tt.True
		}
		return m.tt.Bool(x == nil && (y == nil || (yc == nil && isNilFunc(y))))
	case *ssa.Function:
		return m.tt.Bool(isNilFunc(y) && x == nil)
	case *ssa.Builtin:
		return m.tt.False
	case *nativeFunc:
		return m.tt.Bool(x == nil && isNilFunc(y))
	case nil:
		return m.tt.Bool(y == nil)
	}
	panic(fmt.Sprintf("eqValue: unhandled %T", x))
}

func isNilFunc(v value) bool {
	switch f := v.(type) {
	case *Closure:
		return f == nil
	case *ssa.Function:
		return f == nil
	case *nativeFunc:
		return f == nil
	case nil:
		return true
	}
	return false
}

func (m *Machine) ptrEq(x, y Ptr) *Term {
	if x.isNil() || y.isNil() {
		return m.tt.Bool(x.isNil() && y.isNil())
	}
	if x.idx != nil || y.idx != nil {
		// symbolic element pointers: compare array base and index
		if len(x.arr) > 0 && len(y.arr) > 0 && &x.arr[0] == &y.arr[0] && x.idx != nil && y.idx != nil {
			return m.tt.Eq(x.idx, y.idx)
		}
		m.unsupported("comparison of symbolic element pointers")
	}
	if x.p != nil || y.p != nil {
		return m.tt.Bool(x.p == y.p)
	}
	// zero-length arr pointers
	return m.tt.Bool(x.obj == y.obj && len(x.arr) == len(y.arr))
}

// hashable reports whether the type's values can be used with the
// association-list map (all comparable types can).
func (m *Machine) describe(v value) string {
	switch v := v.(type) {
	case *Term:
		return v.String()
	case Str:
		if s, ok := v.concrete(); ok {
			return fmt.Sprintf("%q", s)
		}
		return fmt.Sprintf("str[%d]", v.Len())
	case Struct:
		parts := make([]string, len(v))
		for i, f := range v {
			parts[i] = m.describe(f)
		}
		return "{" + strings.Join(parts, ",") + "}"
	case Iface:
		if v.t == nil {
			return "nil"
		}
		return fmt.Sprintf("iface(%s)", v.t)
	}
	return fmt.Sprintf("%T", v)
}
