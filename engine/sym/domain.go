package sym

import "math/bits"

// Byte-domain fast path ("front solver").
//
// Path literals whose support is a single 8-bit variable v are recorded as a
// 256-bit set of the values of v that satisfy all of them.  The set is exact
// for those literals (it is computed by evaluating the literal's term for all
// 256 values).  A branch condition over the same single variable is then
// decided without the SMT solver:
//   - if no value of the domain satisfies it (or its negation) the outcome is
//     implied — sound even if v also occurs in multi-variable literals,
//     because the domain over-approximates v's feasible values;
//   - if both outcomes have values in the domain and v occurs in no
//     multi-variable literal of the path condition, both are feasible (the
//     constraints on v are independent of all others).
// Every literal is still asserted in the SMT solver, which decides all other
// conditions and all assertions of the harnesses.

type bitset [4]uint64

func (b *bitset) empty() bool { return b[0]|b[1]|b[2]|b[3] == 0 }
func (b *bitset) and(o *bitset) bitset {
	return bitset{b[0] & o[0], b[1] & o[1], b[2] & o[2], b[3] & o[3]}
}
func (b *bitset) andNot(o *bitset) bitset {
	return bitset{b[0] &^ o[0], b[1] &^ o[1], b[2] &^ o[2], b[3] &^ o[3]}
}
func (b *bitset) first() uint64 {
	for i, w := range b {
		if w != 0 {
			return uint64(i*64 + bits.TrailingZeros64(w))
		}
	}
	return 0
}
func (b *bitset) has(v uint64) bool { return b[v>>6]&(1<<(v&63)) != 0 }
func (b *bitset) count() int {
	return bits.OnesCount64(b[0]) + bits.OnesCount64(b[1]) + bits.OnesCount64(b[2]) + bits.OnesCount64(b[3])
}

var fullSet = bitset{^uint64(0), ^uint64(0), ^uint64(0), ^uint64(0)}

// support of a term: the variables it depends on (at most supMax listed).
const supMax = 4

type support struct {
	vars []*Term
	many bool
}

func (tt *TermTable) supportOf(t *Term) *support {
	if t.sup != nil {
		return t.sup
	}
	var s *support
	switch t.op {
	case OpConst:
		s = &support{}
	case OpVar:
		s = &support{vars: []*Term{t}}
	default:
		s = &support{}
		for i := 0; i < int(t.n) && !s.many; i++ {
			cs := tt.supportOf(t.a[i])
			if cs.many {
				s.many = true
				break
			}
			for _, v := range cs.vars {
				found := false
				for _, w := range s.vars {
					if w == v {
						found = true
						break
					}
				}
				if !found {
					if len(s.vars) >= supMax {
						s.many = true
						break
					}
					s.vars = append(s.vars, v)
				}
			}
		}
		if s.many {
			s.vars = nil
		}
	}
	t.sup = s
	return s
}

// single8 returns the variable when t depends on exactly one 8-bit variable.
func (tt *TermTable) single8(t *Term) *Term {
	s := tt.supportOf(t)
	if !s.many && len(s.vars) == 1 && s.vars[0].sort == 8 {
		return s.vars[0]
	}
	return nil
}

// truthSet: the values of v for which the Boolean term c holds.
func (tt *TermTable) truthSet(c, v *Term) *bitset {
	if c.ts != nil {
		return c.ts
	}
	var b bitset
	idx := int(v.val)
	mod := Model{}
	for i := 0; i < 256; i++ {
		mod[idx] = uint64(i)
		if Eval(c, mod) == 1 {
			b[i>>6] |= 1 << (uint(i) & 63)
		}
	}
	c.ts = &b
	return c.ts
}

type domUndo struct {
	depth  int
	v      *Term
	old    bitset
	hadOld bool
	ent    bool
}

type domState struct {
	doms  map[*Term]*bitset
	ent   map[*Term]int
	trail []domUndo
	allEnt int
}

func newDomState() *domState {
	return &domState{doms: map[*Term]*bitset{}, ent: map[*Term]int{}}
}

func (d *domState) dom(v *Term) *bitset {
	if b, ok := d.doms[v]; ok {
		return b
	}
	return &fullSet
}

// note records an asserted literal at the given solver depth.
func (m *Machine) domNote(lit *Term, depth int) {
	if m.Opts.NoDomain {
		return
	}
	d := m.dom
	s := m.tt.supportOf(lit)
	if !s.many && len(s.vars) == 1 && s.vars[0].sort == 8 {
		v := s.vars[0]
		ts := m.tt.truthSet(lit, v)
		old, had := d.doms[v]
		u := domUndo{depth: depth, v: v, hadOld: had}
		if had {
			u.old = *old
		}
		nb := d.dom(v).and(ts)
		d.doms[v] = &nb
		d.trail = append(d.trail, u)
		return
	}
	if s.many {
		// unknown support: conservatively entangle every variable drawn so far
		d.trail = append(d.trail, domUndo{depth: depth, ent: true})
		d.allEnt++
		return
	}
	for _, v := range s.vars {
		d.ent[v]++
		d.trail = append(d.trail, domUndo{depth: depth, v: v, ent: true})
	}
}

func (m *Machine) domPopTo(depth int) {
	d := m.dom
	for len(d.trail) > 0 && d.trail[len(d.trail)-1].depth > depth {
		u := d.trail[len(d.trail)-1]
		d.trail = d.trail[:len(d.trail)-1]
		switch {
		case u.ent && u.v == nil:
			d.allEnt--
		case u.ent:
			d.ent[u.v]--
		case u.hadOld:
			b := u.old
			d.doms[u.v] = &b
		default:
			delete(d.doms, u.v)
		}
	}
}

func (d *domState) entangled(v *Term) bool { return d.allEnt > 0 || d.ent[v] > 0 }

// domDecide tries to decide condition c without the solver.
// Returns (canTrue, canFalse, decided).
func (m *Machine) domDecide(c *Term) (bool, bool, bool) {
	if m.Opts.NoDomain {
		return false, false, false
	}
	v := m.tt.single8(c)
	if v == nil {
		return false, false, false
	}
	d := m.dom
	ts := m.tt.truthSet(c, v)
	dm := d.dom(v)
	T := dm.and(ts)
	F := dm.andNot(ts)
	switch {
	case T.empty() && F.empty():
		return false, false, true
	case T.empty():
		return false, true, true
	case F.empty():
		return true, false, true
	case !d.entangled(v):
		return true, true, true
	}
	return false, false, false
}

// patchModel makes ex.model satisfy the single-variable literal lit (which is
// known to be feasible) when its variable is independent; otherwise drops it.
func (m *Machine) patchModel(ex *explorer, lit *Term) {
	if ex.model == nil {
		return
	}
	if Eval(lit, ex.model) == 1 {
		return
	}
	v := m.tt.single8(lit)
	if v == nil || m.dom.entangled(v) {
		ex.model = nil
		return
	}
	ts := m.tt.truthSet(lit, v)
	nb := m.dom.dom(v).and(ts)
	if nb.empty() {
		ex.model = nil
		return
	}
	nm := make(Model, len(ex.model)+1)
	for k, x := range ex.model {
		nm[k] = x
	}
	nm[int(v.val)] = nb.first()
	ex.model = nm
}
