package sym

import (
	"fmt"
	"math/bits"
	"os"
)

// Byte-domain fast path ("front solver").
//
// Path literals whose support is a single 8-bit variable v are recorded as a
// 256-bit set of the values of v that satisfy all of them.  The set is exact
// for those literals (it is computed by evaluating the literal's term for all
// 256 values).  A branch condition over the same single variable is then
// decided without the SMT solver:
//   - if no value of the domain satisfies it (or its negation) the outcome is
//     implied — sound even if v also occurs in multi-variable literals,
//     because the domain over-approximates v's feasible values;
//   - if both outcomes have values in the domain and v occurs in no
//     multi-variable literal of the path condition, both are feasible (the
//     constraints on v are independent of all others).
// Every literal is still asserted in the SMT solver, which decides all other
// conditions and all assertions of the harnesses.

type bitset [4]uint64

func (b *bitset) empty() bool { return b[0]|b[1]|b[2]|b[3] == 0 }
func (b *bitset) and(o *bitset) bitset {
	return bitset{b[0] & o[0], b[1] & o[1], b[2] & o[2], b[3] & o[3]}
}
func (b *bitset) andNot(o *bitset) bitset {
	return bitset{b[0] &^ o[0], b[1] &^ o[1], b[2] &^ o[2], b[3] &^ o[3]}
}
func (b *bitset) first() uint64 {
	for i, w := range b {
		if w != 0 {
			return uint64(i*64 + bits.TrailingZeros64(w))
		}
	}
	return 0
}
func (b *bitset) has(v uint64) bool { return b[v>>6]&(1<<(v&63)) != 0 }
func (b *bitset) count() int {
	return bits.OnesCount64(b[0]) + bits.OnesCount64(b[1]) + bits.OnesCount64(b[2]) + bits.OnesCount64(b[3])
}

var fullSet = bitset{^uint64(0), ^uint64(0), ^uint64(0), ^uint64(0)}

// support of a term: the variables it depends on (sorted by id; at most
// supMax listed, beyond that "many").
const supMax = 512

type support struct {
	vars []*Term
	many bool
}

var emptySupport = &support{}

func (tt *TermTable) supportOf(t *Term) *support {
	if t.sup != nil {
		return t.sup
	}
	var s *support
	switch t.op {
	case OpConst:
		s = emptySupport
	case OpVar:
		s = &support{vars: []*Term{t}}
	default:
		// union of the children's supports (children first, iteratively for
		// deep terms via recursion on args; depth is bounded by term depth)
		var acc *support
		for i := 0; i < int(t.n); i++ {
			cs := tt.supportOf(t.a[i])
			if cs.many {
				acc = &support{many: true}
				break
			}
			if len(cs.vars) == 0 {
				continue
			}
			if acc == nil {
				acc = cs
				continue
			}
			acc = unionSupport(acc, cs)
			if acc.many {
				break
			}
		}
		if acc == nil {
			acc = emptySupport
		}
		s = acc
	}
	t.sup = s
	return s
}

func unionSupport(a, b *support) *support {
	// fast path: one contains the other (common for chains)
	if len(b.vars) == 1 {
		for _, v := range a.vars {
			if v == b.vars[0] {
				return a
			}
		}
	}
	if len(a.vars) == 1 {
		for _, v := range b.vars {
			if v == a.vars[0] {
				return b
			}
		}
	}
	out := make([]*Term, 0, len(a.vars)+len(b.vars))
	i, j := 0, 0
	for i < len(a.vars) && j < len(b.vars) {
		switch {
		case a.vars[i] == b.vars[j]:
			out = append(out, a.vars[i])
			i++
			j++
		case a.vars[i].id < b.vars[j].id:
			out = append(out, a.vars[i])
			i++
		default:
			out = append(out, b.vars[j])
			j++
		}
	}
	out = append(out, a.vars[i:]...)
	out = append(out, b.vars[j:]...)
	if len(out) > supMax {
		return &support{many: true}
	}
	if len(out) == len(a.vars) {
		return a
	}
	if len(out) == len(b.vars) {
		return b
	}
	return &support{vars: out}
}

// single8 returns the variable when t depends on exactly one 8-bit variable.
func (tt *TermTable) single8(t *Term) *Term {
	s := tt.supportOf(t)
	if !s.many && len(s.vars) == 1 && s.vars[0].sort == 8 {
		return s.vars[0]
	}
	return nil
}

// truthSet: the values of v for which the Boolean term c holds.
func (tt *TermTable) truthSet(c, v *Term) *bitset {
	if c.ts != nil {
		return c.ts
	}
	var b bitset
	tab := tt.valueTable(c, v)
	for i := 0; i < 256; i++ {
		if tab[i] == 1 {
			b[i>>6] |= 1 << (uint(i) & 63)
		}
	}
	c.ts = &b
	return c.ts
}

type domUndo struct {
	depth  int
	v      *Term
	old    bitset
	hadOld bool
	ent    bool
}

type domState struct {
	doms   map[*Term]*bitset
	ent    map[*Term]int
	trail  []domUndo
	allEnt int
}

func newDomState() *domState {
	return &domState{doms: map[*Term]*bitset{}, ent: map[*Term]int{}}
}

func (d *domState) dom(v *Term) *bitset {
	if b, ok := d.doms[v]; ok {
		return b
	}
	return &fullSet
}

// note records an asserted literal at the given solver depth.
func (m *Machine) domNote(lit *Term, depth int) {
	if m.Opts.NoDomain {
		return
	}
	d := m.dom
	s := m.tt.supportOf(lit)
	if !s.many && len(s.vars) == 1 && s.vars[0].sort == 8 {
		v := s.vars[0]
		ts := m.tt.truthSet(lit, v)
		old, had := d.doms[v]
		u := domUndo{depth: depth, v: v, hadOld: had}
		if had {
			u.old = *old
		}
		nb := d.dom(v).and(ts)
		d.doms[v] = &nb
		d.trail = append(d.trail, u)
		return
	}
	if s.many {
		// unknown support: conservatively entangle every variable drawn so far
		d.trail = append(d.trail, domUndo{depth: depth, ent: true})
		d.allEnt++
		return
	}
	if m.Opts.Trace && os.Getenv("GOSYM_TERMS") != "" && m.entPrinted < 6 {
		m.entPrinted++
		fmt.Printf("ENTANGLING LITERAL (%d vars): %s\n", len(s.vars), lit.String())
	}
	for _, v := range s.vars {
		d.ent[v]++
		d.trail = append(d.trail, domUndo{depth: depth, v: v, ent: true})
	}
}

func (m *Machine) domPopTo(depth int) {
	d := m.dom
	for len(d.trail) > 0 && d.trail[len(d.trail)-1].depth > depth {
		u := d.trail[len(d.trail)-1]
		d.trail = d.trail[:len(d.trail)-1]
		switch {
		case u.ent && u.v == nil:
			d.allEnt--
		case u.ent:
			d.ent[u.v]--
		case u.hadOld:
			b := u.old
			d.doms[u.v] = &b
		default:
			delete(d.doms, u.v)
		}
	}
}

func (d *domState) entangled(v *Term) bool { return d.allEnt > 0 || d.ent[v] > 0 }

// domDecide tries to decide condition c without the solver.
// Returns (canTrue, canFalse, decided).
func (m *Machine) domDecide(c *Term) (bool, bool, bool) {
	if m.Opts.NoDomain {
		return false, false, false
	}
	v := m.tt.single8(c)
	if v == nil {
		return false, false, false
	}
	d := m.dom
	ts := m.tt.truthSet(c, v)
	dm := d.dom(v)
	T := dm.and(ts)
	F := dm.andNot(ts)
	switch {
	case T.empty() && F.empty():
		return false, false, true
	case T.empty():
		return false, true, true
	case F.empty():
		return true, false, true
	case !d.entangled(v):
		return true, true, true
	}
	return false, false, false
}

// patchModel makes ex.model satisfy the single-variable literal lit (which is
// known to be feasible) when its variable is independent; otherwise drops it.
func (m *Machine) patchModel(ex *explorer, lit *Term) {
	if ex.model == nil {
		return
	}
	if Eval(lit, ex.model) == 1 {
		return
	}
	v := m.tt.single8(lit)
	if v == nil || m.dom.entangled(v) {
		ex.model = nil
		return
	}
	ts := m.tt.truthSet(lit, v)
	nb := m.dom.dom(v).and(ts)
	if nb.empty() {
		ex.model = nil
		return
	}
	nm := make(Model, len(ex.model)+1)
	for k, x := range ex.model {
		nm[k] = x
	}
	nm[int(v.val)] = nb.first()
	ex.model = nm
}

// ---- interval layer ----
//
// For conditions over several variables, an unsigned interval evaluation of
// the term (variable ranges taken from the byte domains) can show that only
// one outcome is possible.  This is an over-approximation, so it is only used
// to conclude that an outcome is implied (never that both are feasible).

type ival struct {
	lo, hi uint64
}

type ivalEval struct {
	m    *Machine
	memo map[int]ival
	bmem map[int]int8 // 1 true, 0 false, -1 unknown
}

func (b *bitset) minmax() (uint64, uint64, bool) {
	if b.empty() {
		return 0, 0, false
	}
	lo := b.first()
	var hi uint64
	for i := 3; i >= 0; i-- {
		if b[i] != 0 {
			hi = uint64(i*64 + 63 - bits.LeadingZeros64(b[i]))
			break
		}
	}
	return lo, hi, true
}

func (e *ivalEval) iv(t *Term) ival {
	if t.op == OpConst {
		return ival{t.val, t.val}
	}
	if r, ok := e.memo[t.id]; ok {
		return r
	}
	w := t.sort
	full := ival{0, mask(w)}
	r := full
	if v := e.m.tt.single8(t); v != nil && t.op != OpVar && w != SortBool {
		// exact range by enumeration over the variable's domain
		tab := e.m.tt.valueTable(t, v)
		d := e.m.dom.dom(v)
		first := true
		for i := 0; i < 256; i++ {
			if !d.has(uint64(i)) {
				continue
			}
			x := tab[i]
			if first {
				r = ival{x, x}
				first = false
				continue
			}
			r.lo, r.hi = min(r.lo, x), max(r.hi, x)
		}
		e.memo[t.id] = r
		return r
	}
	switch t.op {
	case OpVar:
		if w == 8 {
			if lo, hi, ok := e.m.dom.dom(t).minmax(); ok {
				r = ival{lo, hi}
			}
		}
	case OpZExt:
		r = e.iv(t.a[0])
	case OpExtract:
		lo := t.val & 0xff
		a := e.iv(t.a[0])
		if lo == 0 && a.hi <= mask(w) {
			r = a
		}
	case OpBAnd:
		a, b := e.iv(t.a[0]), e.iv(t.a[1])
		r = ival{0, min(a.hi, b.hi)}
	case OpBOr, OpBXor:
		a, b := e.iv(t.a[0]), e.iv(t.a[1])
		top := bits.Len64(a.hi | b.hi)
		hi := mask(w)
		if top < 64 {
			hi = min(hi, (uint64(1)<<uint(top))-1)
		}
		lo := uint64(0)
		if t.op == OpBOr {
			lo = max(a.lo, b.lo)
		}
		r = ival{lo, hi}
	case OpShl:
		a, k := e.iv(t.a[0]), t.a[1]
		if k.op == OpConst && k.val < 64 && bits.Len64(a.hi)+int(k.val) <= int(w) {
			r = ival{a.lo << k.val, a.hi << k.val}
		}
	case OpLShr:
		a, k := e.iv(t.a[0]), t.a[1]
		if k.op == OpConst && k.val < 64 {
			r = ival{a.lo >> k.val, a.hi >> k.val}
		}
	case OpAdd:
		a, b := e.iv(t.a[0]), e.iv(t.a[1])
		if s := a.hi + b.hi; s >= a.hi && s <= mask(w) {
			r = ival{a.lo + b.lo, s}
		} else if w < 64 || true {
			// adding a "negative" constant: x + (2^w - c) = x - c when x >= c
			if t.a[1].op == OpConst {
				c := (-t.a[1].val) & mask(w)
				if c <= a.lo {
					r = ival{a.lo - c, a.hi - c}
				}
			}
		}
	case OpSub:
		a, b := e.iv(t.a[0]), e.iv(t.a[1])
		if a.lo >= b.hi {
			r = ival{a.lo - b.hi, a.hi - b.lo}
		}
	case OpMul:
		a, b := e.iv(t.a[0]), e.iv(t.a[1])
		hi, lo := bits.Mul64(a.hi, b.hi)
		if hi == 0 && lo <= mask(w) {
			r = ival{a.lo * b.lo, lo}
		}
	case OpUDiv:
		a, b := e.iv(t.a[0]), e.iv(t.a[1])
		if b.lo > 0 {
			r = ival{a.lo / b.hi, a.hi / b.lo}
		}
	case OpURem:
		a, b := e.iv(t.a[0]), e.iv(t.a[1])
		if b.lo > 0 {
			r = ival{0, min(a.hi, b.hi-1)}
		}
	case OpIte:
		switch e.bv(t.a[0]) {
		case 1:
			r = e.iv(t.a[1])
		case 0:
			r = e.iv(t.a[2])
		default:
			a, b := e.iv(t.a[1]), e.iv(t.a[2])
			r = ival{min(a.lo, b.lo), max(a.hi, b.hi)}
		}
	case OpSExt:
		a := e.iv(t.a[0])
		if a.hi < uint64(1)<<(uint(t.a[0].sort)-1) {
			r = a
		}
	}
	e.memo[t.id] = r
	return r
}

// bv evaluates a Boolean term to 1, 0 or -1 (unknown).
func (e *ivalEval) bv(t *Term) int8 {
	if t.op == OpConst {
		return int8(t.val)
	}
	if r, ok := e.bmem[t.id]; ok {
		return r
	}
	var r int8 = -1
	if v := e.m.tt.single8(t); v != nil {
		// exact under the variable's domain
		ts := e.m.tt.truthSet(t, v)
		d := e.m.dom.dom(v)
		T := d.and(ts)
		F := d.andNot(ts)
		switch {
		case T.empty() && !F.empty():
			r = 0
		case F.empty() && !T.empty():
			r = 1
		}
		e.bmem[t.id] = r
		return r
	}
	switch t.op {
	case OpNot:
		if x := e.bv(t.a[0]); x >= 0 {
			r = 1 - x
		}
	case OpAnd:
		x, y := e.bv(t.a[0]), e.bv(t.a[1])
		switch {
		case x == 0 || y == 0:
			r = 0
		case x == 1 && y == 1:
			r = 1
		}
	case OpOr:
		x, y := e.bv(t.a[0]), e.bv(t.a[1])
		switch {
		case x == 1 || y == 1:
			r = 1
		case x == 0 && y == 0:
			r = 0
		}
	case OpIte:
		switch e.bv(t.a[0]) {
		case 1:
			r = e.bv(t.a[1])
		case 0:
			r = e.bv(t.a[2])
		default:
			x, y := e.bv(t.a[1]), e.bv(t.a[2])
			if x == y {
				r = x
			}
		}
	case OpEq:
		if t.a[0].sort == SortBool {
			x, y := e.bv(t.a[0]), e.bv(t.a[1])
			if x >= 0 && y >= 0 {
				if x == y {
					r = 1
				} else {
					r = 0
				}
			}
		} else if t.a[0].sort != SortInt {
			a, b := e.iv(t.a[0]), e.iv(t.a[1])
			if a.hi < b.lo || b.hi < a.lo {
				r = 0
			} else if a.lo == a.hi && b.lo == b.hi && a.lo == b.lo {
				r = 1
			}
		}
	case OpULt, OpULe, OpSLt, OpSLe:
		if t.op == OpULt || t.op == OpULe {
			// the unsigned overflow idiom "x+y < x" (and its three relatives):
			// decided by whether the sum can wrap
			if d := e.wrapIdiom(t); d >= 0 {
				r = d
				break
			}
		}
		a, b := e.iv(t.a[0]), e.iv(t.a[1])
		w := t.a[0].sort
		if t.op == OpSLt || t.op == OpSLe {
			half := uint64(1) << (uint(w) - 1)
			if a.hi >= half || b.hi >= half {
				break // possibly negative: no conclusion
			}
		}
		strict := t.op == OpULt || t.op == OpSLt
		if strict {
			if a.hi < b.lo {
				r = 1
			} else if a.lo >= b.hi {
				r = 0
			}
		} else {
			if a.hi <= b.lo {
				r = 1
			} else if a.lo > b.hi {
				r = 0
			}
		}
	case OpVar:
		// Boolean variables do not exist (bools are drawn as bytes)
	}
	e.bmem[t.id] = r
	return r
}

// wrapIdiom decides comparisons between a sum and one of its operands when
// the operand ranges show that the sum cannot wrap around.
func (e *ivalEval) wrapIdiom(t *Term) int8 {
	l, rr := t.a[0], t.a[1]
	sumLeft := true
	sum, x := l, rr
	if !(sum.op == OpAdd && (sum.a[0] == x || sum.a[1] == x)) {
		sum, x = rr, l
		sumLeft = false
		if !(sum.op == OpAdd && (sum.a[0] == x || sum.a[1] == x)) {
			return -1
		}
	}
	y := sum.a[0]
	if y == x {
		y = sum.a[1]
	}
	w := x.sort
	if w == SortBool || w == SortInt || w > 64 {
		return -1
	}
	xi, yi := e.iv(x), e.iv(y)
	s := xi.hi + yi.hi
	if s < xi.hi || s > mask(w) {
		return -1 // may wrap
	}
	// no wrap: sum = x + y >= x, and sum > x iff y > 0
	switch {
	case sumLeft && t.op == OpULt: // x+y < x
		return 0
	case sumLeft && t.op == OpULe: // x+y <= x  iff y == 0
		if yi.lo > 0 {
			return 0
		}
		if yi.hi == 0 {
			return 1
		}
	case !sumLeft && t.op == OpULe: // x <= x+y
		return 1
	case !sumLeft && t.op == OpULt: // x < x+y  iff y > 0
		if yi.lo > 0 {
			return 1
		}
		if yi.hi == 0 {
			return 0
		}
	}
	return -1
}

// ivalDecide returns 1/0 if the interval layer shows c is always true/false
// under the current byte domains, -1 otherwise.
func (m *Machine) ivalDecide(c *Term) int8 {
	if m.Opts.NoDomain {
		return -1
	}
	e := &ivalEval{m: m, memo: map[int]ival{}, bmem: map[int]int8{}}
	return e.bv(c)
}

// valueTable: the value of single-variable term t for each value of v,
// computed bottom-up from the tables of the sub-terms (each cached).
func (tt *TermTable) valueTable(t, v *Term) *[256]uint64 {
	if t.tab != nil {
		return t.tab
	}
	var tab [256]uint64
	switch t.op {
	case OpConst:
		for i := range tab {
			tab[i] = t.val
		}
	case OpVar:
		for i := range tab {
			tab[i] = uint64(i)
		}
	default:
		var at [3]*[256]uint64
		for k := 0; k < int(t.n); k++ {
			at[k] = tt.valueTable(t.a[k], v)
		}
		for i := 0; i < 256; i++ {
			var av [3]uint64
			for k := 0; k < int(t.n); k++ {
				av[k] = at[k][i]
			}
			tab[i] = evalOp(t, av)
		}
	}
	t.tab = &tab
	return t.tab
}
