package sym

import (
	"fmt"
	"go/constant"
	"go/token"
	"go/types"
	"strings"
	"time"

	"golang.org/x/tools/go/ssa"
)

// ---- control-flow sentinels (Go panics used to unwind the interpreter) ----

// targetPanic is a panic in the interpreted program.
type targetPanic struct {
	v     value
	where string
}

// pathEnd aborts the current path.
type pathEnd struct {
	kind endKind
	msg  string
}

type endKind int

const (
	endInfeasible  endKind = iota // an assumption is unsatisfiable on this path
	endUnsupported                // construct the engine cannot execute
	endBudget                     // step budget exhausted (unwinding failure)
	endUnknown                    // solver could not decide a query
	endViolation                  // assertion failed (recorded)
	endAbortMerge                 // nested exploration cannot be merged
	endExhausted                  // a concretize decision has no further value
	endKilled                     // goroutine killed at path end
)

func (k endKind) String() string {
	return [...]string{"infeasible", "unsupported", "budget", "unknown", "violation", "abort-merge", "exhausted", "killed"}[k]
}

type engineBug struct{ msg string }

func (e engineBug) String() string { return e.msg }

type deferred struct {
	fn    value
	args  []value
	instr *ssa.Defer
	tail  *deferred
}

type frame struct {
	m         *Machine
	g         *goroutine
	caller    *frame
	fn        *ssa.Function
	block     *ssa.BasicBlock
	prevBlock *ssa.BasicBlock
	env       map[ssa.Value]value
	locals    []value
	defers    *deferred
	result    value
	panicking bool
	panicV    *targetPanic
	phiDone   bool // phis of block already evaluated (after region merge)
}

// Machine is one symbolic interpreter with its own term table and solver.
type Machine struct {
	P      *Program
	tt     *TermTable
	solver *Solver
	Opts   Options

	intMode bool

	// per-path state
	globals    map[*ssa.Global]*value
	globalObjs map[*ssa.Global]*Obj
	inited     map[*ssa.Package]bool
	initing    int
	constCache map[*ssa.Const]value
	steps      int
	nextObj    int
	allocStamp int
	undo       []undoRec
	nvars      int
	draws      []draw
	covers     map[string]bool
	observes   []observation
	knownKey   string
	curG       *goroutine
	sched      *scheduler
	stubState  map[string]value

	// exploration
	ex *explorer

	// merging
	mergeDepth     int
	mergeStampBase []int
	noMerge        map[*ssa.Function]bool
	memo           map[string]*memoEntry

	// statistics
	Stats          Stats
	funcs          map[*ssa.Function]int // functions symbolically executed -> calls
	intrinsicsUsed map[string]int

	errorStringT types.Type

	initProblems   []string
	mapOrderNondet bool
	harnessName    string
	violations     []Violation
	inconclusive   []string
	pathCovers     []string
	lastMergeFail  string
	syncStates     map[*value]*syncState
	killing        bool
	runningInit    map[*ssa.Package]bool
	uniques        []uniqueEntry
	uniquesInit    int
	dom            *domState
	solverWhat     map[string]int
	pkgSeen        map[*ssa.Package]bool
	entPrinted     int
	bypass         *ssa.Function
	pathDeadline   time.Time
	summaries      map[string]value
}

type Options struct {
	StepBudget     int
	MaxMergePath   int
	QueryTimeout   int // ms
	Seed           int
	IntMode        bool
	NoRegion       bool
	Merge          bool   // merge the paths of every scalar-returning callee into one result (off by default)
	NoMergeSingle  bool   // do not even merge calls whose arguments depend on a single 8-bit variable
	FloatPolicy    string // "", "havoc", "exact"
	Trace          bool
	AppendSpare    int  // append growth leaves 0..AppendSpare spare slots (nondeterministic)
	MaxSwitches    int  // bound on context switches per path (0 = unbounded)
	MapOrder       bool // map iteration starts at a nondeterministic rotation
	NoDomain       bool // disable the byte-domain front solver
	Thorough       bool // value of verifrt.Thorough()
	PathSeconds    int  // wall-clock limit per path (default 120)
	NoSummaries    bool // disable single-variable summaries by exhaustive evaluation
	RealAddrString bool // run the real net/netip String methods instead of the opaque stub
	NoModels       bool // run the real code instead of the validated models (model validation harnesses)
}

type Stats struct {
	Paths           int
	Decisions       int
	Steps           int64
	Merges          int
	MergePaths      int
	MergeFails      int
	MemoHits        int
	Regions         int
	Infeasible      int
	Inconclusive    int
	UnknownBranches int
	UnknownAsserts  int
	Concretizations int
	Assertions      int
	DomainDecided   int
	IntervalDecided int
	StaleModels     int
	Summaries       int
	SummaryHits     int
}

type undoRec struct {
	p   *value
	old value
	mp  *Map
	mo  []mapEntry
	mn  int
}

type draw struct {
	varIdx int // -1 if concrete
	w      Sort
	val    uint64 // concrete value when varIdx == -1
	what   string
}

type observation struct {
	label string
	v     value
}

func NewMachine(p *Program, opts Options) (*Machine, error) {
	if opts.StepBudget == 0 {
		opts.StepBudget = 400000
	}
	if opts.MaxMergePath == 0 {
		opts.MaxMergePath = 64
	}
	if opts.QueryTimeout == 0 {
		opts.QueryTimeout = 10000
	}
	s, err := NewSolver("z3", opts.QueryTimeout, opts.Seed)
	if err != nil {
		return nil, err
	}
	tt0 := NewTermTable()
	s.TT = tt0
	m := &Machine{
		P:              p,
		tt:             tt0,
		solver:         s,
		Opts:           opts,
		intMode:        opts.IntMode,
		globals:        map[*ssa.Global]*value{},
		globalObjs:     map[*ssa.Global]*Obj{},
		inited:         map[*ssa.Package]bool{},
		constCache:     map[*ssa.Const]value{},
		noMerge:        map[*ssa.Function]bool{},
		memo:           map[string]*memoEntry{},
		funcs:          map[*ssa.Function]int{},
		dom:            newDomState(),
		pkgSeen:        map[*ssa.Package]bool{},
		summaries:      map[string]value{},
		intrinsicsUsed: map[string]int{},
	}
	if rp := p.SSAPkgs["runtime"]; rp != nil {
		if t := rp.Type("errorString"); t != nil {
			m.errorStringT = t.Type()
		}
	}
	return m, nil
}

func (m *Machine) Close() { m.solver.Close() }

func (m *Machine) unsupported(format string, args ...interface{}) {
	panic(pathEnd{kind: endUnsupported, msg: fmt.Sprintf(format, args...)})
}

// goPanic raises a Go run-time panic in the interpreted program.
func (m *Machine) goPanic(msg string) {
	var v value
	if m.errorStringT != nil {
		v = Iface{t: m.errorStringT, v: mkStr(strings.TrimPrefix(msg, "runtime error: "))}
	} else {
		v = Iface{t: types.Typ[types.String], v: mkStr(msg)}
	}
	panic(&targetPanic{v: v, where: msg})
}

// ---- objects, loads and stores ----

func (m *Machine) newObj(what string) *Obj {
	m.nextObj++
	m.allocStamp++
	stamp := m.allocStamp
	if m.initing > 0 {
		stamp = 0
	}
	return &Obj{id: m.nextObj, stamp: stamp, what: what}
}

func (m *Machine) alloc(t types.Type, what string) Ptr {
	p := new(value)
	*p = m.zero(t)
	return Ptr{obj: m.newObj(what), p: p}
}

// isOld reports whether obj existed before the current path started (a global
// or init-time object), so that writes to it must be undone at path end.
func (m *Machine) noteWrite(obj *Obj, p *value) {
	if m.initing > 0 {
		return
	}
	if obj == nil || obj.stamp == 0 {
		m.undo = append(m.undo, undoRec{p: p, old: *p})
	}
	if m.mergeDepth > 0 {
		base := m.mergeStampBase[len(m.mergeStampBase)-1]
		if obj == nil || obj.stamp <= base {
			panic(pathEnd{kind: endAbortMerge, msg: "write to pre-existing object"})
		}
	}
}

func (m *Machine) load(p Ptr) value {
	if p.bad != "" {
		m.goPanic("runtime error: invalid memory address (unsafe pointer arithmetic: " + p.bad + ")")
	}
	if p.idx != nil {
		return m.selectElem(p.arr, p.idx)
	}
	if p.p == nil {
		if p.fld == -2 && p.arr != nil {
			// pointer to an array sharing a slice's storage
			out := make(Array, len(p.arr))
			for i := range out {
				out[i] = copyVal(p.arr[i])
			}
			return out
		}
		if p.arr != nil {
			m.goPanic("runtime error: load through pointer past the end of an array")
		}
		m.goPanic("runtime error: invalid memory address or nil pointer dereference")
	}
	if m.sched != nil {
		m.sched.access(p, false)
	}
	return copyVal(*p.p)
}

func (m *Machine) store(p Ptr, v value) {
	if p.bad != "" {
		m.goPanic("runtime error: invalid memory address (unsafe pointer arithmetic: " + p.bad + ")")
	}
	if p.idx != nil {
		m.noteWriteArr(p)
		for i := range p.arr {
			c := m.tt.Eq(p.idx, m.tt.BV(p.idx.sort, uint64(i)))
			p.arr[i] = m.mergeValues(c, v, p.arr[i])
		}
		return
	}
	if p.p == nil && p.fld == -2 && p.arr != nil {
		src := v.(Array)
		for i := range p.arr {
			m.noteWrite(p.obj, &p.arr[i])
			p.arr[i] = copyVal(src[i])
		}
		return
	}
	if p.p == nil {
		m.goPanic("runtime error: invalid memory address or nil pointer dereference")
	}
	if m.sched != nil {
		m.sched.access(p, true)
	}
	m.noteWrite(p.obj, p.p)
	*p.p = copyVal(v)
}

func (m *Machine) noteWriteArr(p Ptr) {
	for i := range p.arr {
		m.noteWrite(p.obj, &p.arr[i])
	}
}

// selectElem reads arr[idx] for symbolic idx (already bounds-checked).
func (m *Machine) selectElem(arr []value, idx *Term) value {
	if len(arr) == 0 {
		m.unsupported("select from empty array")
	}
	r := arr[len(arr)-1]
	for i := len(arr) - 2; i >= 0; i-- {
		c := m.tt.Eq(idx, m.tt.BV(idx.sort, uint64(i)))
		r = m.mergeValues(c, arr[i], r)
	}
	return copyVal(r)
}

// mergeValues returns ite(c, a, b) structurally; aborts as unsupported when
// the values cannot be merged.
func (m *Machine) mergeValues(c *Term, a, b value) value {
	if c.IsTrue() {
		return a
	}
	if c.IsFalse() {
		return b
	}
	r, ok := m.tryMergeValues(c, a, b)
	if !ok {
		m.unsupported("cannot merge values of kind %T / %T under a symbolic condition", a, b)
	}
	return r
}

func (m *Machine) tryMergeValues(c *Term, a, b value) (value, bool) {
	switch a := a.(type) {
	case *Term:
		bt, ok := b.(*Term)
		if !ok || a.sort != bt.sort {
			return nil, false
		}
		return m.tt.Ite(c, a, bt), true
	case Struct:
		bs, ok := b.(Struct)
		if !ok || len(a) != len(bs) {
			return nil, false
		}
		out := make(Struct, len(a))
		for i := range a {
			v, ok := m.tryMergeValues(c, a[i], bs[i])
			if !ok {
				return nil, false
			}
			out[i] = v
		}
		return out, true
	case Array:
		bs, ok := b.(Array)
		if !ok || len(a) != len(bs) {
			return nil, false
		}
		out := make(Array, len(a))
		for i := range a {
			v, ok := m.tryMergeValues(c, a[i], bs[i])
			if !ok {
				return nil, false
			}
			out[i] = v
		}
		return out, true
	case Tuple:
		bs, ok := b.(Tuple)
		if !ok || len(a) != len(bs) {
			return nil, false
		}
		out := make(Tuple, len(a))
		for i := range a {
			v, ok := m.tryMergeValues(c, a[i], bs[i])
			if !ok {
				return nil, false
			}
			out[i] = v
		}
		return out, true
	case Str:
		bs, ok := b.(Str)
		if !ok || a.Len() != bs.Len() {
			return nil, false
		}
		if a.b == nil && bs.b == nil && a.s == bs.s {
			return a, true
		}
		out := make([]*Term, a.Len())
		for i := range out {
			out[i] = m.tt.Ite(c, m.strAt(a, i), m.strAt(bs, i))
		}
		return strFromTerms(out), true
	case float64:
		if bf, ok := b.(float64); ok && bf == a {
			return a, true
		}
		return nil, false
	case Ptr:
		bp, ok := b.(Ptr)
		if !ok {
			return nil, false
		}
		if a.isNil() && bp.isNil() {
			return a, true
		}
		if a.p != nil && a.p == bp.p && a.idx == nil && bp.idx == nil {
			return a, true
		}
		return nil, false
	case Iface:
		bi, ok := b.(Iface)
		if !ok {
			return nil, false
		}
		if a.t == nil && bi.t == nil {
			return a, true
		}
		if a.t == nil || bi.t == nil || !types.Identical(a.t, bi.t) {
			return nil, false
		}
		v, ok := m.tryMergeValues(c, a.v, bi.v)
		if !ok {
			return nil, false
		}
		return Iface{t: a.t, v: v}, true
	case Slice:
		bs, ok := b.(Slice)
		if !ok {
			return nil, false
		}
		if a.a == nil && bs.a == nil {
			return a, true
		}
		if len(a.a) == len(bs.a) && cap(a.a) == cap(bs.a) && (len(a.a) == 0 && a.obj == bs.obj || len(a.a) > 0 && &a.a[0] == &bs.a[0]) {
			return a, true
		}
		return nil, false
	case *Map:
		if bm, ok := b.(*Map); ok && bm == a {
			return a, true
		}
		return nil, false
	case *Closure:
		if bc, ok := b.(*Closure); ok && bc == a {
			return a, true
		}
		return nil, false
	case *ssa.Function:
		if bf, ok := b.(*ssa.Function); ok && bf == a {
			return a, true
		}
		return nil, false
	case nil:
		if b == nil {
			return nil, true
		}
		return nil, false
	}
	return nil, false
}

// ---- globals and package initialisation ----

var initAllow = map[string]bool{
	"unicode": true, "unicode/utf8": true, "unicode/utf16": true, "strconv": true, "math/bits": true, "math": true,
	"net/netip": true, "net": true, "net/url": true, "time": true, "errors": true, "io": true,
	"strings": true, "bytes": true, "bufio": true, "sort": true, "slices": true, "maps": true, "cmp": true,
	"internal/bytealg": true, "internal/stringslite": true, "internal/byteorder": true, "internal/itoa": true,
	"golang.org/x/net/idna": true, "golang.org/x/text/unicode/bidi": true, "golang.org/x/text/unicode/norm": true,
	"golang.org/x/text/secure/bidirule": true, "golang.org/x/text/transform": true,
	"unique": true, "context": true, "syscall": true, "os": true, "io/fs": true, "encoding/json": true, "encoding": true,
	"internal/oserror": true, "internal/poll": true, "os/signal": true, "fmt": true, "log/slog": true,
	"sync": true, "sync/atomic": true, "internal/sync": true, "iter": true, "encoding/binary": true, "unsafe": true,
	"internal/godebug": true, "math/rand/v2": true, "internal/abi": true,
}

func (m *Machine) initAllowed(pkg *ssa.Package) bool {
	path := pkg.Pkg.Path()
	if initAllow[path] {
		return true
	}
	return strings.HasPrefix(path, "github.com/AdguardTeam/golibs")
}

// global returns the cell of a package-level variable, running the package
// initialiser first if needed.
func (m *Machine) global(g *ssa.Global) Ptr {
	if p, ok := m.globals[g]; ok {
		return Ptr{obj: m.globalObjs[g], p: p}
	}
	pkg := g.Pkg
	m.ensureInit(pkg)
	if p, ok := m.globals[g]; ok {
		return Ptr{obj: m.globalObjs[g], p: p}
	}
	return m.mkGlobal(g)
}

func (m *Machine) mkGlobal(g *ssa.Global) Ptr {
	p := new(value)
	m.initing++
	*p = m.zero(g.Type().(*types.Pointer).Elem())
	obj := m.newObj("global " + g.String())
	m.initing--
	m.globals[g] = p
	m.globalObjs[g] = obj
	return Ptr{obj: obj, p: p}
}

// ensureInit runs pkg's init function concretely (imports' inits are run
// first through the calls in the synthetic init body).
func (m *Machine) ensureInit(pkg *ssa.Package) {
	if pkg == nil || m.inited[pkg] {
		return
	}
	m.inited[pkg] = true
	m.P.ensureBuilt(pkg)
	// allocate all globals of the package first
	for _, mem := range pkg.Members {
		if g, ok := mem.(*ssa.Global); ok {
			if _, ok := m.globals[g]; !ok {
				m.mkGlobal(g)
			}
		}
	}
	if !m.initAllowed(pkg) {
		return
	}
	initFn := pkg.Func("init")
	if initFn == nil || initFn.Blocks == nil {
		return
	}
	m.initing++
	if m.runningInit == nil {
		m.runningInit = map[*ssa.Package]bool{}
	}
	m.runningInit[pkg] = true
	defer delete(m.runningInit, pkg)
	savedMerge := m.mergeDepth
	m.mergeDepth = 0
	savedG := m.curG
	func() {
		defer func() {
			m.initing--
			m.mergeDepth = savedMerge
			m.curG = savedG
			if r := recover(); r != nil {
				switch r := r.(type) {
				case pathEnd:
					if r.kind == endUnsupported {
						// a part of the initialiser is out of reach; globals
						// initialised so far stay, the rest keep zero values.
						if m.Opts.Trace {
							fmt.Printf("init %s: unsupported: %s\n", pkg.Pkg.Path(), r.msg)
						}
						m.initProblems = append(m.initProblems, pkg.Pkg.Path()+": "+r.msg)
						return
					}
					panic(r)
				case *targetPanic:
					m.initProblems = append(m.initProblems, pkg.Pkg.Path()+": panic "+r.where)
					return
				default:
					panic(r)
				}
			}
		}()
		m.callFunction(nil, initFn, nil, nil)
	}()
}

// ---- frames ----

func (fr *frame) get(v ssa.Value) value {
	switch v := v.(type) {
	case *ssa.Const:
		return fr.m.constValue(v)
	case *ssa.Global:
		return fr.m.global(v)
	case *ssa.Function:
		return v
	case *ssa.Builtin:
		return v
	case nil:
		return nil
	}
	if r, ok := fr.env[v]; ok {
		return r
	}
	panic(fmt.Sprintf("get: no value for %T %v in %s", v, v.Name(), fr.fn))
}

func (m *Machine) constValue(c *ssa.Const) value {
	if v, ok := m.constCache[c]; ok {
		return v
	}
	v := m.constValue1(c)
	m.constCache[c] = v
	return v
}

func (m *Machine) constValue1(c *ssa.Const) value {
	if c.Value == nil {
		return m.zero(c.Type())
	}
	t := c.Type().Underlying()
	if b, ok := t.(*types.Basic); ok {
		switch {
		case b.Info()&types.IsBoolean != 0:
			return m.tt.Bool(constant.BoolVal(c.Value))
		case b.Info()&types.IsInteger != 0:
			if isSigned(b) {
				return m.intConst(b, uint64(c.Int64()))
			}
			return m.intConst(b, c.Uint64())
		case b.Info()&types.IsFloat != 0:
			f := c.Float64()
			if b.Kind() == types.Float32 {
				return float64(float32(f))
			}
			return f
		case b.Info()&types.IsComplex != 0:
			return c.Complex128()
		case b.Info()&types.IsString != 0:
			if c.Value.Kind() == constant.String {
				return mkStr(constant.StringVal(c.Value))
			}
			return mkStr(string(rune(c.Int64())))
		}
	}
	if _, ok := t.(*types.TypeParam); ok {
		panic("constant of type parameter")
	}
	panic(fmt.Sprintf("constValue: unexpected %v of type %v", c, c.Type()))
}

// callFunction runs fn with args (and closure env) to completion.
func (m *Machine) callFunction(caller *frame, fn *ssa.Function, args []value, env []value) value {
	if pkg := pkgOf(fn); pkg != nil && !m.pkgSeen[pkg] {
		// never look at fn.Blocks before the package build has finished
		// (another worker may be building it right now)
		m.P.ensureBuilt(pkg)
		m.pkgSeen[pkg] = true
	}
	if fn.Name() == "init" && fn.Pkg != nil && fn.Synthetic != "" && fn.Pkg.Func("init") == fn && (caller != nil || m.inited[fn.Pkg]) && !m.runningInit[fn.Pkg] {
		m.ensureInit(fn.Pkg)
		return nil
	}
	if m.bypass == fn {
		m.bypass = nil
	} else if h := m.lookupIntrinsic(fn); h != nil {
		return h(m, caller, fn, args)
	}
	if fn.Blocks == nil {
		m.unsupported("function without body and without intrinsic: %s", fn)
	}
	if m.initing == 0 {
		m.funcs[fn]++
	}
	fr := &frame{m: m, caller: caller, fn: fn, env: make(map[ssa.Value]value, 16)}
	if caller != nil {
		fr.g = caller.g
	} else {
		fr.g = m.curG
	}
	depth := 0
	for c := caller; c != nil; c = c.caller {
		depth++
		if depth > 400 {
			m.unsupported("call depth exceeds 400 (unbounded recursion?) in %s", fn)
		}
	}
	for i, p := range fn.Params {
		fr.env[p] = args[i]
	}
	for i, fv := range fn.FreeVars {
		fr.env[fv] = env[i]
	}
	for _, l := range fn.Locals {
		p := m.alloc(l.Type().(*types.Pointer).Elem(), "local")
		fr.env[l] = p
	}
	fr.block = fn.Blocks[0]
	m.runFrame(fr)
	return fr.result
}

// runFrame executes fr until it returns; handles panics and defers.
func (m *Machine) runFrame(fr *frame) {
	for fr.block != nil {
		m.runFrame1(fr)
	}
}

func (m *Machine) runFrame1(fr *frame) {
	defer func() {
		if fr.block == nil {
			return // normal return
		}
		r := recover()
		if r == nil {
			return
		}
		tp, ok := r.(*targetPanic)
		if !ok {
			switch r.(type) {
			case pathEnd, engineBug:
				panic(r) // engine-level unwinding
			}
			// engine bug: annotate with the interpreted stack once
			msg := fmt.Sprint(r) + "\n  interpreted stack:"
			for f := fr; f != nil; f = f.caller {
				msg += "\n    " + f.fn.String()
				if f.block != nil {
					msg += fmt.Sprintf(" block %d", f.block.Index)
				}
			}
			panic(engineBug{msg})
		}
		// interpreted panic: run deferred calls
		fr.panicking = true
		fr.panicV = tp
		fr.runDefers()
		// recovered: continue at the Recover block
		fr.block = fr.fn.Recover
		fr.prevBlock = nil
		if fr.block == nil {
			// no named results: return zero values
			fr.result = m.zero(fr.fn.Signature.Results())
			if fr.fn.Signature.Results().Len() == 0 {
				fr.result = nil
			}
		}
	}()
	for {
		blk := fr.block
		start := 0
		if !fr.phiDone {
			// evaluate phis simultaneously
			var phiVals []value
			var phis []*ssa.Phi
			for _, instr := range blk.Instrs {
				phi, ok := instr.(*ssa.Phi)
				if !ok {
					break
				}
				phis = append(phis, phi)
				idx := -1
				for i, p := range blk.Preds {
					if p == fr.prevBlock {
						idx = i
						break
					}
				}
				if idx < 0 {
					panic(fmt.Sprintf("phi: predecessor not found in %s block %d", fr.fn, blk.Index))
				}
				phiVals = append(phiVals, fr.get(phi.Edges[idx]))
			}
			for i, phi := range phis {
				fr.env[phi] = phiVals[i]
			}
			start = len(phis)
		} else {
			for _, instr := range blk.Instrs {
				if _, ok := instr.(*ssa.Phi); !ok {
					break
				}
				start++
			}
			fr.phiDone = false
		}
		jumped := false
		for _, instr := range blk.Instrs[start:] {
			m.steps++
			if m.steps&0x3ff == 0 && m.initing == 0 && !m.pathDeadline.IsZero() && time.Now().After(m.pathDeadline) {
				panic(pathEnd{kind: endBudget, msg: fmt.Sprintf("path wall-clock limit exceeded in %s (solver queries on this path too slow or too many)", fr.fn)})
			}
			if m.steps > m.Opts.StepBudget && m.initing == 0 {
				panic(pathEnd{kind: endBudget, msg: fmt.Sprintf("step budget %d exhausted in %s", m.Opts.StepBudget, fr.fn)})
			}
			switch m.exec(fr, instr) {
			case kReturn:
				return
			case kJump:
				jumped = true
			}
			if jumped {
				break
			}
		}
		if !jumped {
			panic(fmt.Sprintf("block %d of %s fell through", blk.Index, fr.fn))
		}
	}
}

func (fr *frame) runDefers() {
	for d := fr.defers; d != nil; d = fr.defers {
		fr.defers = d.tail
		fr.runDefer(d)
	}
	if fr.panicking {
		panic(fr.panicV)
	}
}

func (fr *frame) runDefer(d *deferred) {
	defer func() {
		if r := recover(); r != nil {
			tp, ok := r.(*targetPanic)
			if !ok {
				panic(r)
			}
			// a deferred call panicked: it replaces the current panic
			fr.panicking = true
			fr.panicV = tp
		}
	}()
	fr.m.call(fr, d.fn, d.args)
}

type continuation int

const (
	kNext continuation = iota
	kReturn
	kJump
)

// call invokes a function value.
func (m *Machine) call(caller *frame, fn value, args []value) value {
	switch fn := fn.(type) {
	case *ssa.Function:
		if fn == nil {
			m.goPanic("runtime error: invalid memory address or nil pointer dereference (call of nil func)")
		}
		return m.callMaybeMerge(caller, fn, args, nil)
	case *Closure:
		if fn == nil {
			m.goPanic("runtime error: invalid memory address or nil pointer dereference (call of nil func)")
		}
		return m.callMaybeMerge(caller, fn.fn, args, fn.env)
	case *ssa.Builtin:
		return m.callBuiltin(caller, fn, args)
	case *nativeFunc:
		if fn == nil {
			m.goPanic("runtime error: invalid memory address or nil pointer dereference (call of nil func)")
		}
		return fn.f(m, caller, args)
	case nil:
		m.goPanic("runtime error: invalid memory address or nil pointer dereference (call of nil func)")
	}
	panic(fmt.Sprintf("call: unexpected function value %T", fn))
}

func (m *Machine) prepareCall(fr *frame, c *ssa.CallCommon) (fn value, args []value) {
	v := fr.get(c.Value)
	if c.Method == nil {
		fn = v
	} else {
		recv := v.(Iface)
		if recv.t == nil {
			m.goPanic("runtime error: invalid memory address or nil pointer dereference (method call on nil interface)")
		}
		f := m.P.Prog.LookupMethod(recv.t, c.Method.Pkg(), c.Method.Name())
		if f == nil {
			panic(fmt.Sprintf("method set of %v lacks %s", recv.t, c.Method))
		}
		fn = f
		args = append(args, recv.v)
	}
	for _, a := range c.Args {
		args = append(args, fr.get(a))
	}
	return
}

func (m *Machine) pos(p token.Pos) string {
	if !p.IsValid() {
		return "?"
	}
	pp := m.P.Prog.Fset.Position(p)
	return fmt.Sprintf("%s:%d", pp.Filename, pp.Line)
}

func (m *Machine) where(fr *frame, instr ssa.Instruction) string {
	return fmt.Sprintf("%s (%s)", fr.fn.String(), m.pos(instr.Pos()))
}
