package sym

import (
	"fmt"
	"go/types"

	"golang.org/x/tools/go/ssa"
)

func (m *Machine) intVal(v int64) *Term {
	return m.intConst(types.Typ[types.Int], uint64(v))
}

func (m *Machine) callBuiltin(caller *frame, fn *ssa.Builtin, args []value) value {
	switch fn.Name() {
	case "append":
		return m.appendBuiltin(args[0].(Slice), args[1], fn, caller != nil && isHarnessFunc(caller.fn))
	case "copy":
		dst := args[0].(Slice)
		var n int
		switch src := args[1].(type) {
		case Slice:
			n = len(dst.a)
			if len(src.a) < n {
				n = len(src.a)
			}
			// handle overlap like memmove
			tmp := make([]value, n)
			for i := 0; i < n; i++ {
				if m.sched != nil {
					m.sched.access(Ptr{obj: src.obj, p: &src.a[i]}, false)
				}
				tmp[i] = copyVal(src.a[i])
			}
			for i := 0; i < n; i++ {
				m.store(Ptr{obj: dst.obj, p: &dst.a[i]}, tmp[i])
			}
		case Str:
			n = len(dst.a)
			if src.Len() < n {
				n = src.Len()
			}
			for i := 0; i < n; i++ {
				m.store(Ptr{obj: dst.obj, p: &dst.a[i]}, m.strAt(src, i))
			}
		default:
			panic(fmt.Sprintf("copy from %T", src))
		}
		return m.intVal(int64(n))
	case "len":
		switch x := args[0].(type) {
		case Str:
			return m.intVal(int64(x.Len()))
		case Slice:
			return m.intVal(int64(len(x.a)))
		case Array:
			return m.intVal(int64(len(x)))
		case Ptr:
			return m.intVal(int64(len(m.arrayOf(x))))
		case *Map:
			if x == nil {
				return m.intVal(0)
			}
			if m.sched != nil {
				m.sched.accessObj(x.obj, false)
			}
			return m.intVal(int64(x.n))
		case *Chan:
			if x == nil {
				return m.intVal(0)
			}
			return m.intVal(int64(len(x.buf)))
		}
	case "cap":
		switch x := args[0].(type) {
		case Slice:
			return m.intVal(int64(cap(x.a)))
		case Array:
			return m.intVal(int64(len(x)))
		case Ptr:
			return m.intVal(int64(len(m.arrayOf(x))))
		case *Chan:
			if x == nil {
				return m.intVal(0)
			}
			return m.intVal(int64(x.cap))
		}
	case "close":
		m.chanClose(caller, args[0].(*Chan))
		return nil
	case "delete":
		m.mapDelete(args[0].(*Map), args[1])
		return nil
	case "clear":
		switch x := args[0].(type) {
		case *Map:
			if x != nil {
				m.mapNote(x)
				x.entries = nil
				x.n = 0
			}
		case Slice:
			et := fn.Type().(*types.Signature).Params().At(0).Type().Underlying().(*types.Slice).Elem()
			for i := range x.a {
				m.store(Ptr{obj: x.obj, p: &x.a[i]}, m.zero(et))
			}
		}
		return nil
	case "min", "max":
		acc := args[0]
		for _, a := range args[1:] {
			acc = m.minmax(fn.Name() == "min", fn.Type().(*types.Signature).Params().At(0).Type(), acc, a)
		}
		return acc
	case "panic":
		panic(&targetPanic{v: args[0], where: "panic builtin"})
	case "recover":
		// recover() must be called by a function deferred by the panicking one.
		if caller != nil && caller.caller != nil && caller.caller.panicking {
			caller.caller.panicking = false
			p := caller.caller.panicV
			caller.caller.panicV = nil
			return p.v
		}
		return Iface{}
	case "print", "println":
		return nil
	case "ssa:deferstack":
		return &deferStack{fr: caller}
	case "ssa:wrapnilchk":
		p := args[0].(Ptr)
		if p.isNil() {
			m.goPanic("runtime error: invalid memory address or nil pointer dereference (value method called using nil pointer)")
		}
		return p
	case "String": // unsafe.String(ptr, len)
		p := args[0].(Ptr)
		n := int(m.concreteInt(args[1].(*Term), "unsafe.String length"))
		if n == 0 {
			return Str{}
		}
		arr := p.arr
		if arr == nil || len(arr) < n || p.idx != nil {
			m.unsupported("unsafe.String on pointer without array extent")
		}
		b := make([]*Term, n)
		for i := range b {
			b[i] = arr[i].(*Term)
		}
		return strFromTerms(b)
	case "StringData":
		s := args[0].(Str)
		if s.Len() == 0 {
			return Ptr{}
		}
		a := make([]value, s.Len())
		for i := range a {
			a[i] = m.strAt(s, i)
		}
		return Ptr{obj: m.newObj("stringdata"), p: &a[0], arr: a}
	case "Slice": // unsafe.Slice(ptr, len)
		p := args[0].(Ptr)
		n := int(m.concreteInt(args[1].(*Term), "unsafe.Slice length"))
		if p.isNil() {
			if n != 0 {
				m.goPanic("runtime error: unsafe.Slice: ptr is nil and len is not zero")
			}
			return Slice{}
		}
		if p.arr == nil || len(p.arr) < n || p.idx != nil {
			m.unsupported("unsafe.Slice on pointer without array extent")
		}
		return Slice{obj: p.obj, a: p.arr[:n:n]}
	case "SliceData":
		s := args[0].(Slice)
		if s.a == nil {
			return Ptr{}
		}
		full := s.a[:cap(s.a)]
		if len(full) == 0 {
			return Ptr{obj: s.obj, arr: full}
		}
		return Ptr{obj: s.obj, p: &full[0], arr: full}
	case "Sizeof":
		t := fn.Type().(*types.Signature).Params().At(0).Type()
		return m.intConst(types.Typ[types.Uintptr], uint64(m.P.Sizes.Sizeof(t)))
	case "Alignof":
		t := fn.Type().(*types.Signature).Params().At(0).Type()
		return m.intConst(types.Typ[types.Uintptr], uint64(m.P.Sizes.Alignof(t)))
	case "Add":
		m.unsupported("unsafe.Add")
	}
	panic(fmt.Sprintf("unhandled builtin %s(%T...)", fn.Name(), firstOrNil(args)))
}

func firstOrNil(a []value) value {
	if len(a) == 0 {
		return nil
	}
	return a[0]
}

func (m *Machine) minmax(isMin bool, t types.Type, a, b value) value {
	switch a := a.(type) {
	case *Term:
		bt := b.(*Term)
		var lt *Term
		switch {
		case a.sort == SortInt:
			lt = m.tt.ICmp(OpILt, a, bt)
		case isSigned(t):
			lt = m.tt.Cmp(OpSLt, a, bt)
		default:
			lt = m.tt.Cmp(OpULt, a, bt)
		}
		if isMin {
			return m.tt.Ite(lt, a, bt)
		}
		return m.tt.Ite(lt, bt, a)
	case float64:
		bf := b.(float64)
		if isMin {
			return min(a, bf)
		}
		return max(a, bf)
	case Str:
		bs := b.(Str)
		lt := m.strLess(a, bs)
		if m.branch(lt, "string min/max") == isMin {
			return a
		}
		return bs
	}
	panic("minmax")
}

// appendBuiltin implements append(s, t...).  Growth gives a nondeterministic
// amount of spare capacity (0..AppendSpare) so that aliasing through spare
// capacity is visible whatever the run time's growth policy is.
func (m *Machine) appendBuiltin(s Slice, tv value, fn *ssa.Builtin, inHarness bool) value {
	var add []value
	switch t := tv.(type) {
	case Slice:
		add = make([]value, len(t.a))
		for i, e := range t.a {
			if m.sched != nil {
				m.sched.access(Ptr{obj: t.obj, p: &t.a[i]}, false)
			}
			add[i] = copyVal(e)
		}
	case Str:
		add = make([]value, t.Len())
		for i := range add {
			add[i] = m.strAt(t, i)
		}
	default:
		panic(fmt.Sprintf("append of %T", tv))
	}
	if len(add) == 0 {
		return s
	}
	n := len(s.a) + len(add)
	if n <= cap(s.a) {
		out := s.a[:n]
		for i, e := range add {
			m.store(Ptr{obj: s.obj, p: &out[len(s.a)+i]}, e)
		}
		return Slice{obj: s.obj, a: out}
	}
	spare := 0
	if m.Opts.AppendSpare > 0 && m.initing == 0 && !inHarness {
		spare = m.choice(m.Opts.AppendSpare+1, "append spare capacity")
	}
	na := make([]value, n, n+spare)
	for i := range s.a {
		if m.sched != nil {
			m.sched.access(Ptr{obj: s.obj, p: &s.a[i]}, false)
		}
		na[i] = copyVal(s.a[i])
	}
	copy(na[len(s.a):], add)
	// spare slots hold zero values
	if spare > 0 {
		et := fn.Type().(*types.Signature).Params().At(0).Type().Underlying().(*types.Slice).Elem()
		full := na[:n+spare]
		for i := n; i < n+spare; i++ {
			full[i] = m.zero(et)
		}
	}
	return Slice{obj: m.newObj("append"), a: na}
}

// deferStack designates the defer stack of a frame (ssa:deferstack).
type deferStack struct{ fr *frame }

// isHarnessFunc reports whether fn belongs to a harness file (names Verif*,
// cNN*, verif*), including closures defined in such functions.
func isHarnessFunc(fn *ssa.Function) bool {
	for fn.Parent() != nil {
		fn = fn.Parent()
	}
	n := fn.Name()
	if recv := fn.Signature.Recv(); recv != nil {
		t := recv.Type()
		if p, ok := t.(*types.Pointer); ok {
			t = p.Elem()
		}
		if nt, ok := t.(*types.Named); ok {
			n = nt.Obj().Name()
		}
	}
	if len(n) >= 5 && (n[:5] == "Verif" || n[:5] == "verif") {
		return true
	}
	return len(n) >= 3 && n[0] == 'c' && n[1] >= '0' && n[1] <= '9' && n[2] >= '0' && n[2] <= '9'
}
