package main

import "gosym/sym"

func init() {
	register(&propCheck{
		ID:   "C18",
		Dirs: []string{"service"},
		Harnesses: func(thorough bool) []harnessCfg {
			o := sym.Options{MaxSwitches: 2}
			if thorough {
				o.MaxSwitches = 3
			}
			return []harnessCfg{
				{Dir: "service", Func: "VerifC18Signals", Opts: o, SchedDependent: true},
				{Dir: "service", Func: "VerifC18Refresh", Opts: o, SchedDependent: true},
			}
		},
		Bounds: func(thorough bool) map[string]string {
			s, g, e, p := "0..3", "0..2", "0..2", "2"
			if thorough {
				s, g, e, p = "0..4", "0..3", "0..4", "3"
			}
			return map[string]string{
				"SignalHandler": s + " services, each Shutdown outcome in {nil, error, panic}; " + g + " arbitrary non-shutdown signals (symbolic signal numbers, real osutil.IsShutdownSignal) followed by an arbitrary shutdown signal, delivered by an environment goroutine",
				"RefreshWorker": e + " ticks of the injected clock, then Shutdown; RefreshOnShutdown on/off; every Refresh outcome in {nil, error}; schedule returns symbolic durations; all interleavings of driver and worker with at most " + p + " preemptions",
			}
		},
		Outside:     []string{"real timers and OS signals", "more services/events/preemptions", "panicking refreshers", "the shutdown timeout context (context.WithTimeout is stubbed to the parent)"},
		Assumptions: []string{"a panicking Shutdown ends the shutdown sequence (the statement only requires that the result is not ExitCodeSuccess then)", "channel/select/goroutine semantics are the engine's model"},
		Stubs:       []string{"log/slog.Logger methods, slog.Default, slogutil.PrintRecovered: empty", "context.WithTimeout: returns the parent context and a no-op cancel", "clock, schedule, refresher, context constructor, error handler, signal notifier: harness stubs"},
		Technique:   "SSA->SMT bounded symbolic execution with goroutines; outcome vectors and signal numbers symbolic/forked, interleavings explored under a preemption bound",
	})
}
