package main

import "gosym/sym"

func init() {
	register(&propCheck{
		ID:   "C05",
		Dirs: []string{"netutil"},
		Harnesses: func(thorough bool) []harnessCfg {
			o := sym.Options{}
			hs := []harnessCfg{
				{Dir: "netutil", Func: "VerifC05PrefixV4", Opts: o},
				{Dir: "netutil", Func: "VerifC05PrefixV6", Opts: o},
				{Dir: "netutil", Func: "VerifC05PrefixFree", Opts: o},
				{Dir: "netutil", Func: "VerifC05ExtractV4", Opts: o},
				{Dir: "netutil", Func: "VerifC05ExtractV6", Opts: o},
				{Dir: "netutil", Func: "VerifC05ExtractFree", Opts: o},
				{Dir: "netutil", Func: "VerifC05PrefixV6Full", Opts: o},
				{Dir: "netutil", Func: "VerifC05ExtractV6Full", Opts: o},
				{Dir: "netutil", Func: "VerifC05UnicodeRoot", Opts: o},
			}
			return append(hs, modelHarnesses...)
		},
		Bounds: func(thorough bool) map[string]string {
			if thorough {
				return map[string]string{
					"in-addr.arpa label sequences": "0..6 labels of one arbitrary ASCII byte, one label (any position) 1..4 bytes wide (bytes not 'x'; not '.' when more than 2 labels), arbitrary ASCII joining byte before the root, root in every letter case, 0..2 trailing dots",
					"ip6.arpa label sequences":     "PrefixFromReversedAddr: 0..34, ExtractReversedAddr: 0..12 labels of one arbitrary ASCII byte, one label (any position) 2..3 bytes wide; bytes not '.' when more than 4 labels",
					"free strings":                 "PrefixFromReversedAddr: every ASCII string of length 0..8; ExtractReversedAddr: X ++ root for every ASCII X of length 0..6 (joint inside X)",
					"ip6.arpa, full length":        "30..33 labels; one label (any position) 1..3 arbitrary ASCII bytes, its neighbours one arbitrary ASCII byte, the others fixed hex digits; arbitrary joining byte, root in every case, 0..2 trailing dots",
					"non-ASCII root":               "0..2 one-digit labels + a root in which one byte is replaced by an arbitrary two-byte UTF-8 rune (thorough: or a three-byte rune U+1000..U+CFFF), through the real idna and unicode tables",
					"extraction":                   "0..2 leading labels of 1..2 bytes in front of the label sequences",
				}
			}
			return map[string]string{
				"in-addr.arpa label sequences": "0..5 labels of one arbitrary ASCII byte, one label (any position) 1..3 bytes wide (bytes not 'x'; not '.' when more than 2 labels), arbitrary ASCII joining byte before the root, root in every letter case, 0..2 trailing dots",
				"ip6.arpa label sequences":     "0..8 labels of one arbitrary ASCII byte, one label (any position) 2..3 bytes wide; bytes not '.' when more than 4 labels",
				"free strings":                 "PrefixFromReversedAddr: every ASCII string of length 0..6; ExtractReversedAddr: X ++ root for every ASCII X of length 0..4 (joint inside X)",
				"ip6.arpa, full length":        "30..33 labels; one label (any position) 1..3 arbitrary ASCII bytes, its neighbours one arbitrary ASCII byte, the others fixed hex digits; arbitrary joining byte, root in every case, 0..2 trailing dots",
				"non-ASCII root":               "0..2 one-digit labels + a root in which one byte is replaced by an arbitrary two-byte UTF-8 rune (thorough: or a three-byte rune U+1000..U+CFFF), through the real idna and unicode tables",
				"extraction":                   "0..1 leading label of 1..2 bytes in front of the label sequences",
			}
		},
		Outside:     []string{"non-ASCII bytes elsewhere than one rune in the root", "labels starting with 'xn--'", "several multi-byte labels at once in long ip6.arpa names", "names between the shape bounds and 253 bytes"},
		Assumptions: []string{"reference decoder c05RefPrefix/c05RefExtract written from the statement (DESIGN.md appendix A); extraction uses the real ValidateDomainName as the statement's 'valid domain name'"},
		Stubs:       append([]string{"fmt.* (texts opaque)", "unique.Make (interning)"}, modelStubs...),
		Technique:   "SSA->SMT bounded symbolic execution; implementation vs. independent reference decoder on symbolic label sequences",
	})
}
