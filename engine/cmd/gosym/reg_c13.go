package main

import "gosym/sym"

func init() {
	register(&propCheck{
		ID:   "C13",
		Dirs: []string{"stringutil"},
		Harnesses: func(thorough bool) []harnessCfg {
			o := sym.Options{PathSeconds: 300}
			hs := []harnessCfg{
				{Dir: "stringutil", Func: "VerifC13FoldASCII", Opts: o},
				{Dir: "stringutil", Func: "VerifC13Split", Opts: o},
			}
			if thorough {
				hs = append(hs, harnessCfg{Dir: "stringutil", Func: "VerifC13FoldUnicode", Opts: o})
			}
			return hs
		},
		Bounds: func(thorough bool) map[string]string {
			if thorough {
				return map[string]string{
					"ContainsFold, ASCII":   "all ASCII operands with |s| <= 6, |sub| <= 3",
					"ContainsFold, Unicode": "valid UTF-8 operands without U+FFFD, at most one multi-byte rune each, |s| <= 4, |sub| <= 3 bytes, through the real unicode tables",
					"SplitTrimmed":          "all ASCII str with |str| <= 7, sep of 0..2 ASCII bytes",
				}
			}
			return map[string]string{
				"ContainsFold, ASCII": "all ASCII operands with |s| <= 4, |sub| <= 2 (every fold orbit of ASCII letters incl. the three-member ones of k and s, which fold with non-ASCII runes)",
				"SplitTrimmed":        "all ASCII str with |str| <= 5, sep of 1..2 ASCII bytes",
			}
		},
		Outside:     []string{"longer operands", "operands with several multi-byte runes", "quick tier: non-ASCII operands"},
		Assumptions: []string{"the statement's definition (same byte length, rune boundary, strings.EqualFold) written in the harness with the real strings.EqualFold", "SplitTrimmed reference uses the real strings.Split and strings.TrimSpace"},
		Stubs:       modelStubs[:1],
		Technique:   "SSA->SMT bounded symbolic execution; implementation vs. the definition in the statement on symbolic operands",
	})
}
