package main

import "gosym/sym"

func init() {
	register(&propCheck{
		ID:   "C09",
		Dirs: []string{"cache"},
		Harnesses: func(thorough bool) []harnessCfg {
			o := sym.Options{}
			return []harnessCfg{
				{Dir: "cache", Func: "VerifC09History", Opts: o},
				{Dir: "cache", Func: "VerifC09Reentrant", Opts: o},
				{Dir: "cache", Func: "VerifC09Order", Opts: o},
			}
		},
		Bounds: func(thorough bool) map[string]string {
			st, rs, ord := "1..3", "1..2", "MaxCount 2..3 full, then 0..2"
			if thorough {
				st, rs, ord = "1..4", "1..2", "MaxCount 2..4 full, then 0..3"
			}
			return map[string]string{
				"configuration":  "MaxSize in {0 (unlimited), 2, 4}, MaxElementSize in {0, 1, 3}, MaxCount in {0, 1, 2}, EnableLRU on/off, OnDelete nil or recording: all 108 combinations",
				"keys/values":    "keys of 0..1 symbolic bytes (values 0..2 so that collisions are decided by the solver), values of 0..2 arbitrary bytes",
				"histories":      st + " operations over Set/Get/Del/Clear, Stats checked after each",
				"eviction order": ord + " re-ordering operations (Get / replacing Set / Del of a symbolic live key), then 1..2 fresh keys; results, Stats, survivors and the OnDelete log against the model",
				"re-entrancy":    rs + " Sets on LRU caches (MaxCount 1..2, MaxSize 0 or 3) whose OnDelete performs one arbitrary Set/Get/Del/Stats on the cache (at most two per outer call, nested evictions only recorded)",
			}
		},
		Outside:     []string{"sizes near the uint range (overflow of size+addSize)", "longer histories, longer keys/values", "hit/miss counters beyond int32", "callbacks that refill the cache on every eviction (unbounded by construction)", "inductive step from an arbitrary internal state (not built)"},
		Assumptions: []string{"abstract LRU model in the harness: recency list, byte total, hit/miss counters; eviction while size+add > MaxSize or count == MaxCount (the statement's 'when room is needed' in its most permissive reading)", "structPtr's pointer arithmetic is executed by the engine's container-of model (field pointer minus field offset)"},
		Stubs:       []string{"sync.Mutex (engine lock state; self-deadlock reported)", "sync/atomic (engine intrinsics)"},
		Technique:   "SSA->SMT bounded symbolic execution of API histories against an abstract LRU model, incl. unsafe container-of arithmetic and re-entrant callbacks",
	})
}
