package main

import "gosym/sym"

func init() {
	register(&propCheck{
		ID:   "C11",
		Dirs: []string{"container"},
		Harnesses: func(thorough bool) []harnessCfg {
			o := sym.Options{AppendSpare: 1}
			return []harnessCfg{
				{Dir: "container", Func: "VerifC11MapSet", Opts: o},
				{Dir: "container", Func: "VerifC11MapSetNaN", Opts: o},
				{Dir: "container", Func: "VerifC11SortedSliceSet", Opts: o},
				{Dir: "container", Func: "VerifC11SortedNew", Opts: o},
				{Dir: "container", Func: "VerifC11CloneIndependent", Opts: o},
				{Dir: "container", Func: "VerifC11RingBuffer", Opts: o},
			}
		},
		Bounds: func(thorough bool) map[string]string {
			if thorough {
				return map[string]string{
					"MapSet[int]":                "histories of 1..4 operations over Add/Delete/Clear/Clone(+mutate clone)/Equal with symbolic values in 0..3; all observers (Len, Has with symbolic probe, Values, Range with early stop) compared with the abstract set for the set and its clone",
					"SortedSliceSet[int]":        "construction from 0..2 values, histories of 0..3 operations over Add/Delete/Clear/Clone(+Add/Delete on the clone), values forked over 0..2 (every order pattern); observers incl. strict ascent of Values/Range; Equal against an independently built set",
					"RingBuffer[int]":            "capacity 0..4, 1..6 operations over Push (symbolic non-zero values)/Clear; Range (early stop 0..3), ReverseRange, Len, Current compared with the last min(k,n) values",
					"MapSet[float64]":            "one concrete scenario with a NaN element (a key not equal to itself): Add, Clear, Len, Values, Range, Equal",
					"SortedSliceSet constructor": "0..5 arbitrary values in 0..3 in arbitrary order (duplicates anywhere), then one Delete; all observers",
					"SortedSliceSet clone":       "a set built from 0..2 values, optionally Cleared or shrunk by one Delete (storage kept), cloned; one Add/Delete on the clone and one on the origin in either order (values 0..2); all observers of both against their own models",
					"append":                     "every append inside the container code that has to grow gets 0 or 1 spare slots (aliasing through spare capacity is visible)",
				}
			}
			return map[string]string{
				"MapSet[int]":                "histories of 1..4 operations over Add/Delete/Clear/Clone(+mutate clone)/Equal with symbolic values in 0..2; all observers compared with the abstract set for the set and its clone",
				"SortedSliceSet[int]":        "construction from 0..2 values, histories of 0..2 operations over Add/Delete/Clear/Clone(+Add/Delete on the clone), values forked over 0..2; observers incl. strict ascent; Equal against an independently built set",
				"RingBuffer[int]":            "capacity 0..3, 1..5 operations over Push (symbolic non-zero values)/Clear; Range (early stop), ReverseRange, Len, Current",
				"MapSet[float64]":            "one concrete scenario with a NaN element (a key not equal to itself): Add, Clear, Len, Values, Range, Equal",
				"SortedSliceSet constructor": "0..4 arbitrary values in 0..3 in arbitrary order (duplicates anywhere), then one Delete; all observers",
				"SortedSliceSet clone":       "a set built from 0..2 values, optionally Cleared or shrunk by one Delete (storage kept), cloned; one Add/Delete on the clone and one on the origin in either order (values 0..2); all observers of both against their own models",
				"append":                     "every growing append inside the container code gets 0 or 1 spare slots",
			}
		},
		Outside:     []string{"element types other than int (and the one float64/NaN scenario)", "longer histories and larger capacities", "MapSetToString* and String (formatting)"},
		Assumptions: []string{"abstract models written in the harness: sorted duplicate-free slice; list of the last min(k,n) pushed values", "map iteration order: insertion order of the engine's association-list map (order independence of the set observers is asserted through membership, not position)"},
		Stubs:       []string{"maps.clone (runtime linkname): shallow copy intrinsic", "slices.overlaps: element identity instead of uintptr comparison", "fmt.* (opaque)"},
		Technique:   "SSA->SMT bounded symbolic execution of operation histories against abstract set/ring models (generic code instantiated at int)",
	})
}
