package main

import "gosym/sym"

func init() {
	register(&propCheck{
		ID:   "C14",
		Dirs: []string{"netutil", "netutil/urlutil", "timeutil"},
		Harnesses: func(thorough bool) []harnessCfg {
			o := sym.Options{}
			hs := []harnessCfg{
				{Dir: "netutil", Func: "VerifC14HostPort", Opts: sym.Options{RealAddrString: true}},
				{Dir: "netutil", Func: "VerifC14Prefix", Opts: o},
				{Dir: "netutil", Func: "VerifC14PrefixShapes", Opts: o},
				{Dir: "netutil/urlutil", Func: "VerifC14URLText", Opts: o},
				{Dir: "netutil/urlutil", Func: "VerifC14URLJSON", Opts: o},
				{Dir: "timeutil", Func: "VerifC14Duration", Opts: o},
				{Dir: "timeutil", Func: "VerifC14DurationEdges", Opts: o},
			}
			return append(hs, modelHarnesses[1])
		},
		Bounds: func(thorough bool) map[string]string {
			h, p, u := "4", "6", "3"
			if thorough {
				h, p, u = "6", "8", "3"
			}
			return map[string]string{
				"HostPort":      "host: every byte string of length 0.." + h + " without '[' and ']'; port: base in {0,10,90,100,990,1000,9990,10000,65530} plus an arbitrary last digit (every digit count and boundary)",
				"Prefix":        "every byte string of length 0.." + p,
				"Prefix shapes": "lead from {'', '::', '::ffff:', '::FFFF:', '1::', '0:0:0:0:0:ffff:', '64:ff9b::'} + dotted quad of arbitrary digits / 'h:h' / 'h' (arbitrary digits; thorough: hex digits) + optional '/' and 0..3 arbitrary bytes",
				"Duration":      "d = +/-(h*Hour + m*Minute + s*Second + f) with one component an arbitrary byte (h 0..255, m 0..59, s 0..59, f 0..255 ns) and the others from {0,1,100} h, {0,1,59} m, {0,1,59} s, {0,1,5e8} ns; String() against the statement's definition for all of them, the text round trip for f == 0; plus 11 concrete edge values (0, +-1, min, max, fractions)",
				"URL JSON":      "every ASCII string of length 0..2 (thorough 0..3) as raw URL: json.Marshal -> json.Unmarshal, bridged by the executor to URL.MarshalText + the real encoding/json appendString (escapeHTML on) and to the real unquoteBytes validity check + URL.UnmarshalJSON; String() must survive",
				"URL text":      "every byte string of length 0.." + u + " as raw URL, through the real net/url Parse and String",
			}
		},
		Outside: []string{"timeutil.Duration values outside the family above (a fully symbolic int64 needs 64-bit division by 10^9, which no available solver decides in time; the family keeps every term a function of one input byte, decided by the executor's value tables)", "the Duration text round trip with a symbolic value and a fractional part (floating point in time.ParseDuration)", "JSON beyond string tokens and non-ASCII text through JSON (encoding/json's reflection-driven paths are not executed; invalid UTF-8 is replaced by U+FFFD by encoding/json itself)",
			"ports other than the listed bases + last digit", "longer hosts / texts / URLs"},
		Assumptions: []string{"netip.ParsePrefix / ParseAddr / url.Parse / URL.String are the real std code and the reference"},
		Stubs:       []string{"encoding/json.Marshal/Unmarshal: bridged for text marshalers / string tokens to the real appendString and unquoteBytes (natively the real encoding/json runs)", "strconv.FormatUint(v,10) digit-wise model (validated by VerifModelItoa)", "fmt.* (opaque)", "unique.Make (interning)"},
		Technique:   "SSA->SMT bounded symbolic execution; encode/decode round trips and differential comparison with the std parsers on symbolic texts",
	})
}
