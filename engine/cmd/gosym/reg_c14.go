package main

import "gosym/sym"

func init() {
	register(&propCheck{
		ID:   "C14",
		Dirs: []string{"netutil", "netutil/urlutil"},
		Harnesses: func(thorough bool) []harnessCfg {
			o := sym.Options{}
			hs := []harnessCfg{
				{Dir: "netutil", Func: "VerifC14HostPort", Opts: o},
				{Dir: "netutil", Func: "VerifC14Prefix", Opts: o},
				{Dir: "netutil/urlutil", Func: "VerifC14URLText", Opts: o},
			}
			return append(hs, modelHarnesses[1])
		},
		Bounds: func(thorough bool) map[string]string {
			h, p, u := "4", "6", "3"
			if thorough {
				h, p, u = "6", "8", "4"
			}
			return map[string]string{
				"HostPort": "host: every byte string of length 0.." + h + " without '[' and ']'; port: base in {0,10,90,100,990,1000,9990,10000,65530} plus an arbitrary last digit (every digit count and boundary)",
				"Prefix":   "every byte string of length 0.." + p,
				"URL text": "every byte string of length 0.." + u + " as raw URL, through the real net/url Parse and String",
			}
		},
		Outside: []string{"timeutil.Duration (needs an integer-mode encoding of 64-bit division: not built; not claimed)", "URL JSON encoding (encoding/json is reflection-driven; the string-token path is not modelled yet; not claimed)",
			"ports other than the listed bases + last digit", "longer hosts / texts / URLs"},
		Assumptions: []string{"netip.ParsePrefix / ParseAddr / url.Parse / URL.String are the real std code and the reference"},
		Stubs:       []string{"strconv.FormatUint(v,10) digit-wise model (validated by VerifModelItoa)", "fmt.* (opaque)", "unique.Make (interning)"},
		Technique:   "SSA->SMT bounded symbolic execution; encode/decode round trips and differential comparison with the std parsers on symbolic texts",
	})
}
