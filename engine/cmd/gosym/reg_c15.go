package main

import "gosym/sym"

func init() {
	register(&propCheck{
		ID:   "C15",
		Dirs: []string{"ioutil"},
		Harnesses: func(thorough bool) []harnessCfg {
			o := sym.Options{}
			return []harnessCfg{
				{Dir: "ioutil", Func: "VerifC15LimitReaderStep", Opts: o},
				{Dir: "ioutil", Func: "VerifC15LimitReaderNegative", Opts: o},
				{Dir: "ioutil", Func: "VerifC15LimitReaderHistory", Opts: o},
				{Dir: "ioutil", Func: "VerifC15TruncWriterStep", Opts: o},
				{Dir: "ioutil", Func: "VerifC15TruncWriterHistory", Opts: o},
			}
		},
		Bounds: func(thorough bool) map[string]string {
			steps := "2 Reads / 3 Writes"
			if thorough {
				steps = "3 Reads / 3 Writes"
			}
			return map[string]string{
				"limit, counters": "none: all 64-bit values (symbolic)",
				"history":         steps + " per history, each buffer 0..3 bytes, stream of 6 symbolic bytes",
				"inductive step":  "one call from any state with n<=limit (offset<=limit); buffers 0..3 bytes; covers histories of any length given the invariant",
				"wrapped reader":  "any count 0..min(len(p),available), error in {nil, io.EOF, injected}; (0,nil) and data+EOF included; negative counts in a separate harness",
				"wrapped writer":  "any short count, error or nil",
			}
		},
		Outside:     []string{"buffers longer than 3 bytes", "histories longer than the stated number of calls in the history variant (the inductive variant has no history bound)", "wrapped readers returning n > len(p)", "text of error messages (fmt stubbed)"},
		Assumptions: []string{"'never requests more than n in total' is read as: at every underlying Read, bytes delivered so far + requested size <= n", "representation invariant of the step harnesses: n <= limit, offset <= limit (established by the constructors, preserved by the step)"},
		Stubs:       []string{"fmt.Sprintf/Errorf: opaque text, real error objects", "wrapped io.Reader / io.Writer: nondeterministic stubs obeying the io contracts"},
		Technique:   "SSA->SMT bounded symbolic execution, one-step inductive harness from an arbitrary symbolic state plus bounded histories",
	})
}
