package main

import "gosym/sym"

func init() {
	register(&propCheck{
		ID:   "C12",
		Dirs: []string{"netutil"},
		Harnesses: func(thorough bool) []harnessCfg {
			o := sym.Options{}
			return []harnessCfg{
				{Dir: "netutil", Func: "VerifC12IPToAddr", Opts: o},
				{Dir: "netutil", Func: "VerifC12NoMapped", Opts: o},
				{Dir: "netutil", Func: "VerifC12NetAddr", Opts: o},
				{Dir: "netutil", Func: "VerifC12Subnet", Opts: o},
				{Dir: "netutil", Func: "VerifC12SubnetMapped4", Opts: o},
				{Dir: "netutil", Func: "VerifC12Compare", Opts: o},
				{Dir: "netutil", Func: "VerifC12Sort", Opts: o},
			}
		},
		Bounds: func(thorough bool) map[string]string {
			n := "3"
			if thorough {
				n = "5"
			}
			return map[string]string{
				"conversions":           "net.IP of length nil, 0, 3, 4, 5, 12, 15, 16, 17 with all bytes symbolic; both families; net.Addr in {TCP, UDP, IP, Unix} with symbolic IP, port (all 16-bit values) and zone (0..2 bytes)",
				"subnets":               "no value bound: every 4-/16-byte IP, every mask of the same length (canonical, non-contiguous) or nil, and every probe address x of that length (16-byte x with x[10]=0xff excluded, see assumptions)",
				"subnets, 16-byte IPv4": "every IPv4-mapped 16-byte IP with every 4-byte mask (the converted address is the 4-byte form) through IPNetToPrefixNoMapped and IPNetToPrefix(IPv4), every 4-byte probe address",
				"comparators":           "all pairs of netip.Addr of every kind (zero, IPv4, IPv6, zoned IPv6; all address bits symbolic)",
				"sorting":               "slices.SortFunc on slices of length 0.." + n + " with elements invalid / IPv4 0.0.0.b / IPv6 ::b (b symbolic)",
			}
		},
		Outside:     []string{"slices longer than the bound (pdqsort beyond its insertion-sort regime)", "IPv4-mapped probe addresses against IPv6 networks: package net treats them as IPv4 (never inside an IPv6 network), netip as IPv6", "subnets whose mask length differs from the converted address length (outside the statement)"},
		Assumptions: []string{"membership oracle is the real net.IPNet.Contains; mask canonicity oracle is the real net.IPMask.Size", "probe addresses for IPv6 subnets satisfy x[10] != 0xff (excludes the IPv4-mapped ones with a single-byte condition)"},
		Stubs:       []string{"fmt.Errorf (opaque text)", "unique.Make (zone interning)"},
		Technique:   "SSA->SMT bounded symbolic execution; conversions against the statement's oracles over fully symbolic addresses, masks and probe addresses; comparator consistency over all address pairs plus the real slices.SortFunc on short symbolic slices",
	})
}
