package main

import "gosym/sym"

var modelHarnesses = []harnessCfg{
	{Dir: "netutil", Func: "VerifModelToLower", Opts: sym.Options{NoModels: true}},
	{Dir: "netutil", Func: "VerifModelItoa", Opts: sym.Options{NoModels: true}},
}

var modelStubs = []string{
	"strings.ToLower/ToUpper on all-ASCII input: byte-wise model, validated each run against the real SSA body (VerifModelToLower, all ASCII strings <= 4 bytes); non-ASCII input runs the real code",
	"strconv.FormatInt/FormatUint(v,10) for symbolic 0<=v<=999999: digit-wise model, validated each run (VerifModelItoa, all byte values and decimal boundaries)",
}

func init() {
	register(&propCheck{
		ID:   "C03",
		Dirs: []string{"netutil"},
		Harnesses: func(thorough bool) []harnessCfg {
			o := sym.Options{}
			return []harnessCfg{
				{Dir: "netutil", Func: "VerifC03Hostname", Opts: o},
				{Dir: "netutil", Func: "VerifC03Domain", Opts: o},
				{Dir: "netutil", Func: "VerifC03SRV", Opts: o},
				{Dir: "netutil", Func: "VerifC03Chain", Opts: o},
				{Dir: "netutil", Func: "VerifC03Boundaries", Opts: o},
				{Dir: "netutil", Func: "VerifC03IDN", Opts: o},
				{Dir: "netutil", Func: "VerifC03NumericTLD", Opts: o},
				{Dir: "netutil", Func: "VerifC03ACE", Opts: o, NoCoverCheck: true},
			}
		},
		Bounds: func(thorough bool) map[string]string {
			n := "7"
			if thorough {
				n = "9"
			}
			return map[string]string{
				"free strings":        "every ASCII string (all 128 values per byte) of length 0.." + n + " without an 'xn--' label, through the real idna.ToASCII",
				"IDN":                 "names of 29..32 two-byte labels (punycode 240..264 bytes) and of 3..5 labels of 40 two-byte letters (raw 245..407 bytes) with one arbitrary ASCII byte in the final label, through the real idna.ToASCII (punycode) for all three validators",
				"xn-- labels":         "'' / 'a.' / '_s.a.' + 'xn--' or 'XN--' + 0..3 bytes from {'-','0','a','z'} + optional '.com', through the real idna.ToASCII (punycode decoder), all three validators",
				"numeric final label": "final labels of 1..4, 9..11, 19..21, 38..40 and 63 bytes made of '9's or of the leading digits of 2^64/2^128 with two arbitrary ASCII bytes (one at a chosen position, one last), after 'a.' or '_s.b.', for all three validators",
				"boundaries":          "label lengths 62..64, service labels 15..18, total lengths 252..254; bytes from [a-z0-9_-] minus 'x' with one arbitrary ASCII byte at the first/last position of the boundary label",
			}
		},
		Outside:     []string{"names with non-ASCII bytes or 'xn--' labels outside the IDN and xn-- families: the statement takes idna.ToASCII as given", "names longer than the bound outside the boundary shapes", "error message texts"},
		Assumptions: []string{"reference grammar c03Ref written from the property statement (labels, lengths, inner hyphens, non-digit TLD, '_'+label <= 16)", "for ASCII names without 'xn--' labels idna.ToASCII is executed for real (it returns the name unchanged)"},
		Stubs:       []string{"fmt.Errorf/Sprintf (error texts opaque, error objects real)"},
		Technique:   "SSA->SMT bounded symbolic execution of the three validators and the real idna.ToASCII against a reference grammar; error type/field assertions on the returned interface value",
	})
	register(&propCheck{
		ID:   "C04",
		Dirs: []string{"netutil"},
		Harnesses: func(thorough bool) []harnessCfg {
			o := sym.Options{}
			hs := []harnessCfg{
				{Dir: "netutil", Func: "VerifC04RoundTrip4", Opts: o},
				{Dir: "netutil", Func: "VerifC04RoundTrip6", Opts: o},
				{Dir: "netutil", Func: "VerifC04AcceptsV4", Opts: o},
				{Dir: "netutil", Func: "VerifC04AcceptsV6", Opts: o},
				{Dir: "netutil", Func: "VerifC04AcceptsV4V6Text", Opts: o, NoCoverCheck: true},
				{Dir: "netutil", Func: "VerifC04Short", Opts: o},
				{Dir: "netutil", Func: "VerifC04V6Separators", Opts: o},
				{Dir: "netutil", Func: "VerifC04V6Long", Opts: o},
				{Dir: "netutil", Func: "VerifC04UnicodeRoot", Opts: o, NoCoverCheck: true},
			}
			return append(hs, modelHarnesses...)
		},
		Bounds: func(thorough bool) map[string]string {
			x, sh, sep := "7", "6", "separators concrete"
			if thorough {
				x, sh, sep = "9", "8", "one separator position arbitrary"
			}
			return map[string]string{
				"round trip":                                       "none on the address: all 2^32 IPv4 (4-byte and IPv4-mapped 16-byte net.IP) and all 2^128 IPv6 addresses; IPv4 names in every letter-case combination (one symbolic flag per letter), IPv6 names all-lower, all-upper and each single letter position upper; with and without one trailing dot",
				"accepted language v4":                             "X ++ j ++ 'in-addr.arpa' (every case of the root, 0..2 trailing dots), X any ASCII string of length 0.." + x + " without 'xn--' label, j any ASCII byte (for empty X also absent)",
				"accepted language v6, separators":                 "72-byte shape with fixed hex nibbles; one of the 32 separators is an arbitrary ASCII byte and both neighbour nibbles are arbitrary ASCII bytes",
				"accepted language v6, lengths":                    "a full 32-nibble name with 1..2 extra one-byte labels in front, or with its first 1..2 labels missing (68..76 bytes), first label arbitrary ASCII",
				"non-ASCII root":                                   "a complete in-addr.arpa / ip6.arpa name in which one byte of the root is replaced by an arbitrary two-byte UTF-8 rune (thorough: or a three-byte rune U+1000..U+CFFF), through the real idna, strings.ToLower and unicode tables",
				"accepted language, IPv6 text before in-addr.arpa": "optional leading '::', 0..2 hex fields of width 1 or 4 (all digits symbolic, any case), optional '::', a dotted quad of symbolic digits, '.in-addr.arpa' in every case, 0..2 trailing dots",
				"accepted language v6":                             "32 arbitrary ASCII bytes (not '.', not 'x') at the nibble positions of the 72-byte shape, " + sep + ", root in every letter case, 0..2 trailing dots",
				"short strings":                                    "every ASCII string of length 0.." + sh,
			}
		},
		Outside:     []string{"names with non-ASCII bytes elsewhere than one rune in the root", "IPv6 names with more than one displaced separator", "IPv6 round-trip names with several but not all letters in upper case"},
		Assumptions: []string{"canonical names c04Canon4/c04Canon16 written from RFC 1035 s3.5 / RFC 3596 s2.5"},
		Stubs:       append([]string{"fmt.* (texts opaque)", "unique.Make (interning)"}, modelStubs...),
		Technique:   "SSA->SMT bounded symbolic execution; encoder/decoder round trip over fully symbolic address bits; accepted-language harness asserting canonicity of every accepted name",
	})
}
