package main

import "gosym/sym"

func init() {
	register(&propCheck{
		ID:   "C07",
		Dirs: []string{"hostsfile"},
		Harnesses: func(thorough bool) []harnessCfg {
			o := sym.Options{}
			return []harnessCfg{
				{Dir: "hostsfile", Func: "VerifC07Free", Opts: o},
				{Dir: "hostsfile", Func: "VerifC07Shapes", Opts: o},
				{Dir: "hostsfile", Func: "VerifC07Addrs", Opts: o},
				{Dir: "hostsfile", Func: "VerifC07IDN", Opts: o, NoCoverCheck: true},
			}
		},
		Bounds: func(thorough bool) map[string]string {
			n := "6"
			if thorough {
				n = "7"
			}
			return map[string]string{
				"free lines": "every ASCII line of length 0.." + n + " (no 'xn--' name label)",
				"addresses":  "lead from {'', '::ffff:', '::FFFF:', '::', '64:ff9b::', '1::', '0:0:0:0:0:ffff:'} + dotted quad / 'h:h' / 'h' of arbitrary digits + optional '%' and one arbitrary byte, one space, one name of one arbitrary byte; grammar and Marshal/Unmarshal round trip",
				"IDN names":  "a three-name line whose middle name is 3..5 labels of 50 two-byte letters or 29..32 two-byte labels plus a final label 'c'+one arbitrary ASCII byte (raw and punycode lengths on opposite sides of 253), through the real idna.ToASCII",
				"shapes":     "ws* addr ws+ name (ws+ name){0..1} ws* ('#' 0..1|2 bytes)? with ws runs of 1..2 symbolic space/tab bytes, addr in {d.d.d.d, ::b, fe80::1%zone, 1..2|3 arbitrary bytes}, first name 1..2 arbitrary ASCII bytes, second name one byte (quick|thorough)",
				"round trip": "every accepted record of the above is marshalled (real netip.Addr.MarshalText) and re-parsed",
			}
		},
		Outside:     []string{"non-ASCII bytes outside the IDN length family and 'xn--' labels in names (idna.ToASCII internals)", "lines longer than the bound outside the shape family", "error message texts"},
		Assumptions: []string{"reference from the statement: cut at '#', split on space/tab, real netip.ParseAddr for the first field, real netutil.ValidateDomainName for the names"},
		Stubs:       []string{"fmt.Errorf (real wrapping error objects, opaque text)", "unique.Make (zone interning)", "internal/bytealg primitives"},
		Technique:   "SSA->SMT bounded symbolic execution; reference field grammar + round trip on symbolic lines",
	})
	register(&propCheck{
		ID:   "C08",
		Dirs: []string{"hostsfile"},
		Harnesses: func(thorough bool) []harnessCfg {
			o := sym.Options{}
			return []harnessCfg{
				{Dir: "hostsfile", Func: "VerifC08Parse", Opts: o},
				{Dir: "hostsfile", Func: "VerifC08Storage", Opts: o},
			}
		},
		Bounds: func(thorough bool) map[string]string {
			if thorough {
				return map[string]string{
					"Parse sources": "(a) every string of length 0..5 over the alphabet {':','1','a',' ','#',CR,LF} chosen by the solver; (b) 1..2 lines from 8 templates (good, bad, empty, comment, CR-terminated) with every terminator combination (LF, CRLF, none)",
					"reader":        "chunk size 1, 2, 3, 5 or everything; two (0,nil) reads before the 1st..3rd data read or never; EOF with the last data or separately; with and without a source name; destination Set or HandleSet; scan buffer of capacity 4 (growth exercised)",
					"storage":       "1..2 Add calls, records with 0..2 names of one symbolic ASCII letter [a-zA-Z], addresses from a pool of two symbolic IPv4 and one symbolic IPv6 address; ByName queried in both letter cases",
				}
			}
			return map[string]string{
				"Parse sources": "(a) every string of length 0..4 over the alphabet {':','1','a',' ','#',CR,LF} chosen by the solver; (b) 1..2 lines from 7 templates with every terminator combination (LF, CRLF, none)",
				"reader":        "chunk size 1, 3 or everything; two (0,nil) reads before the 1st..2nd data read or never; EOF with the last data or separately; with and without a source name; destination Set or HandleSet; scan buffer of capacity 4",
				"storage":       "1..2 Add calls, records with 0..2 names of one symbolic ASCII letter [a-zA-Z], addresses from a pool of two symbolic IPv4 and one symbolic IPv6 address; ByName queried in both letter cases",
			}
		},
		Outside:     []string{"sources longer than the bound", "readers returning more than two consecutive (0,nil) (bufio gives up after 100)", "names longer than one letter and non-ASCII names in the storage harness", "log output of HandleInvalid"},
		Assumptions: []string{"line splitting reference follows the documented bufio.ScanLines definition; the per-line verdict is the real Record.UnmarshalText (C07 decides its correctness)", "storage reference: association lists in first-seen order keyed by ASCII-lower-cased name"},
		Stubs:       []string{"log.Debug (empty)", "fmt.Errorf (real wrapping objects)", "strings.ToLower ASCII model", "wrapped io.Reader: deterministic fragmenting stub parameterised by solver choices"},
		Technique:   "SSA->SMT bounded symbolic execution of Parse with the real bufio.Scanner under enumerated reader fragmentations; DefaultStorage against an association-list model with solver-decided key equalities",
	})
}
