// Command gosym is the bounded symbolic executor driver for the golibs
// property checks.
package main

import (
	"encoding/json"
	"flag"
	"fmt"
	"os"
	"path/filepath"
	"runtime"
	"sort"
	"strings"
	"time"

	"gosym/sym"
)

// repoDir is /repo for every registered check; GOSYM_REPO redirects it to a
// scratch worktree (tools/evalseed.sh runs seeded changes there, in parallel,
// without touching /repo), and GOSYM_EVIDENCE_DIR keeps such runs from
// overwriting the evidence of the unchanged tree.
var repoDir = envOr("GOSYM_REPO", "/repo")
var evidenceDir = envOr("GOSYM_EVIDENCE_DIR", "/verif/evidence")

const verifDir = "/verif"

func envOr(k, def string) string {
	if v := os.Getenv(k); v != "" {
		return v
	}
	return def
}

const modPath = "github.com/AdguardTeam/golibs"

// buildOverlay maps harness and runtime files into /repo.
// overlayFilter, when non-empty, restricts harness files to common*.go and
// files starting with this prefix (the lower-case property id).
var overlayFilter string

func buildOverlay(pkgDirs []string) (map[string]string, error) {
	ov := map[string]string{}
	rt, _ := filepath.Glob(filepath.Join(verifDir, "rt/verifrt/*.go"))
	for _, f := range rt {
		ov[filepath.Join(repoDir, "internal/verifrt", filepath.Base(f))] = f
	}
	for _, d := range pkgDirs {
		hs, _ := filepath.Glob(filepath.Join(verifDir, "harness", d, "*.go"))
		for _, f := range hs {
			base := filepath.Base(f)
			if overlayFilter != "" && !strings.HasPrefix(base, "common") && !strings.HasPrefix(base, overlayFilter) {
				continue
			}
			ov[filepath.Join(repoDir, d, "zz_verif_"+base)] = f
		}
	}
	return ov, nil
}

func loadProgram(pkgDirs []string) (*sym.Program, error) {
	ov, err := buildOverlay(pkgDirs)
	if err != nil {
		return nil, err
	}
	// generated harness parts of every registered check on these packages
	genDir, err := os.MkdirTemp("", "gosym-gen-")
	if err != nil {
		return nil, err
	}
	defer os.RemoveAll(genDir)
	for _, pc := range registry {
		if pc.Gen == nil {
			continue
		}
		for _, d := range pc.Dirs {
			for _, pd := range pkgDirs {
				if d == pd {
					g, err := pc.Gen(genDir)
					if err != nil {
						return nil, err
					}
					for k, v := range g {
						ov[k] = v
					}
				}
			}
		}
	}
	var pats []string
	for _, d := range pkgDirs {
		pats = append(pats, "./"+d)
	}
	start := time.Now()
	p, err := sym.Load(sym.LoadConfig{RepoDir: repoDir, Patterns: pats, Overlay: ov, Tags: "verif"})
	if err != nil {
		return nil, err
	}
	p.LoadTimeS = time.Since(start).Seconds()
	return p, nil
}

func cmdRun(args []string) int {
	fs := flag.NewFlagSet("run", flag.ExitOnError)
	pkg := fs.String("pkg", "netutil", "package dir relative to repo")
	fn := fs.String("func", "", "harness function")
	workers := fs.Int("workers", runtime.NumCPU(), "workers")
	trace := fs.Bool("trace", false, "trace")
	merge := fs.Bool("merge", false, "enable callee merging")
	noRegion := fs.Bool("noregion", false, "disable region merging")
	budget := fs.Int("budget", 0, "step budget")
	timeout := fs.Int("qtimeout", 10000, "query timeout ms")
	spare := fs.Int("spare", 0, "append spare")
	maxSw := fs.Int("preempt", 0, "preemption bound for schedules (0 = unbounded)")
	pathSec := fs.Int("pathsec", 0, "per-path wall clock limit")
	limit := fs.Int("limit", 0, "stop exploring after this many seconds")
	noModels := fs.Bool("nomodels", false, "run real code instead of validated models")
	noDomain := fs.Bool("nodomain", false, "disable byte-domain front solver")
	mergePaths := fs.Int("mergepaths", 0, "max paths of a merged callee")
	fs.Parse(args)
	p, err := loadProgram([]string{*pkg})
	if err != nil {
		fmt.Fprintln(os.Stderr, err)
		return 2
	}
	fmt.Printf("loaded in %.1fs\n", p.LoadTimeS)
	spec := sym.HarnessSpec{Pkg: modPath + "/" + *pkg, Func: *fn, Opts: sym.Options{Trace: *trace, Merge: *merge, NoRegion: *noRegion, StepBudget: *budget, QueryTimeout: *timeout, AppendSpare: *spare, MaxMergePath: *mergePaths, NoDomain: *noDomain, NoModels: *noModels, PathSeconds: *pathSec, MaxSwitches: *maxSw}}
	dl := time.Time{}
	if *limit > 0 {
		dl = time.Now().Add(time.Duration(*limit) * time.Second)
	}
	res := sym.RunHarness(p, spec, *workers, 8, dl)
	printResult(res)
	if len(res.Violations) > 0 {
		return 1
	}
	if res.Error != "" || len(res.Inconclusive) > 0 {
		return 2
	}
	return 0
}

func printResult(res *sym.HarnessResult) {
	fmt.Printf("harness %s: paths=%d completed=%d infeasible=%d violations=%d inconclusive=%d wall=%.1fs\n",
		res.Spec.Func, res.Paths, res.Completed, res.Infeasible, len(res.Violations), len(res.Inconclusive), res.WallS)
	fmt.Printf("  ends: %v\n", res.EndKinds)
	fmt.Printf("  stats: %+v\n", res.Stats)
	fmt.Printf("  solver: sat=%d unsat=%d unknown=%d errors=%d time=%.1fs terms=%d\n", res.Solver.Sat, res.Solver.Unsat, res.Solver.Unknown, res.Solver.Errors, res.Solver.Time.Seconds(), res.TermCount)
	fmt.Printf("  covers: %v\n", res.Covers)
	if res.Error != "" {
		fmt.Printf("  ERROR: %s\n", res.Error)
	}
	for _, s := range res.InitProblems {
		fmt.Printf("  init problem: %s\n", s)
	}
	for i, s := range res.Inconclusive {
		if i > 10 {
			break
		}
		fmt.Printf("  inconclusive: %s\n", s)
	}
	seen := map[string]int{}
	for _, v := range res.Violations {
		k := v.Msg
		seen[k]++
		if seen[k] > 3 {
			continue
		}
		b, _ := json.Marshal(v.Vector)
		fmt.Printf("  VIOLATION %s: %s at %s vector=%s known=%q\n", v.Harness, v.Msg, v.Where, b, v.KnownKey)
	}
	for i, s := range res.Samples {
		if i > 3 {
			break
		}
		b, _ := json.Marshal(s)
		fmt.Printf("  sample: %s\n", b)
	}
	if res.SolverWhat != nil {
		type kv struct {
			k string
			v int
		}
		var kvs []kv
		for k, v := range res.SolverWhat {
			kvs = append(kvs, kv{k, v})
		}
		sort.Slice(kvs, func(i, j int) bool { return kvs[i].v > kvs[j].v })
		for i, e := range kvs {
			if i > 15 {
				break
			}
			fmt.Printf("  solver-decided: %6d %s\n", e.v, e.k)
		}
	}
	var fns []string
	for k := range res.Funcs {
		fns = append(fns, k)
	}
	fmt.Printf("  functions encoded: %d; intrinsics: %v\n", len(fns), res.Intrinsics)
}

func main() {
	if len(os.Args) < 2 {
		fmt.Fprintln(os.Stderr, "usage: gosym run|check|replay ...")
		os.Exit(2)
	}
	switch os.Args[1] {
	case "run":
		os.Exit(cmdRun(os.Args[2:]))
	case "check":
		os.Exit(cmdCheck(os.Args[2:]))
	case "replay":
		os.Exit(cmdReplay(os.Args[2:]))
	case "list":
		// property id and harness name of every registered harness
		var ids []string
		for id := range registry {
			ids = append(ids, id)
		}
		sort.Strings(ids)
		for _, id := range ids {
			for _, h := range registry[id].Harnesses(true) {
				fmt.Println(id, h.Func)
			}
		}
	default:
		fmt.Fprintln(os.Stderr, "unknown command "+strings.Join(os.Args[1:], " "))
		os.Exit(2)
	}
}
