package main

import (
	"crypto/sha1"
	"encoding/json"
	"flag"
	"fmt"
	"os"
	"os/exec"
	"path/filepath"
	"runtime"
	"sort"
	"strconv"
	"strings"
	"time"

	"gosym/sym"
)

// harnessCfg is one harness of a property check.
type harnessCfg struct {
	Dir  string // package directory relative to the repo
	Func string
	Opts sym.Options
	// Optional marks harnesses whose cover points may be unreachable.
	NoCoverCheck bool
	// SchedDependent marks harnesses whose cover points and observations
	// depend on the goroutine schedule: the native replay (real scheduler)
	// is only required to finish without assertion failure or panic.
	SchedDependent bool
}

// propCheck describes how one property is decided.
type propCheck struct {
	ID          string
	Dirs        []string // package dirs to load
	Harnesses   func(thorough bool) []harnessCfg
	Gen         func(genDir string) (map[string]string, error) // extra overlay files (virtual -> real)
	Bounds      func(thorough bool) map[string]string
	Outside     []string
	Assumptions []string
	Stubs       []string
	Technique   string
	// OutsideDyn lists things found outside the claim on this run (appended
	// to outside_bound in the evidence and printed as NOTE lines).
	OutsideDyn func() []string
}

var registry = map[string]*propCheck{}

func register(p *propCheck) { registry[p.ID] = p }

type knownFinding struct {
	Property string `json:"property"`
	Key      string `json:"key"`
	Status   string `json:"status"` // known | fixed
	What     string `json:"what"`
	Example  string `json:"example,omitempty"`
	Commit   string `json:"commit,omitempty"`
	Note     string `json:"note,omitempty"`
}

func loadKnown() []knownFinding {
	b, err := os.ReadFile(filepath.Join(verifDir, "known_findings.json"))
	if err != nil {
		return nil
	}
	var ks []knownFinding
	if err := json.Unmarshal(b, &ks); err != nil {
		fmt.Fprintln(os.Stderr, "known_findings.json:", err)
		return nil
	}
	return ks
}

// replayFile is the on-disk form of a counterexample.
type replayFile struct {
	Property string   `json:"property"`
	Dir      string   `json:"dir"`
	Harness  string   `json:"harness"`
	Vector   []uint64 `json:"vector"`
	Draws    []string `json:"draws,omitempty"`
	Msg      string   `json:"msg"`
	Where    string   `json:"where,omitempty"`
	KnownKey string   `json:"known_key,omitempty"`
	Tier     string   `json:"tier"`
	Native   string   `json:"native_outcome,omitempty"`
}

type nativeCase struct {
	Harness string   `json:"harness"`
	Vector  []uint64 `json:"vector"`
	Repeat  int      `json:"repeat,omitempty"`
}

type nativeOutcome struct {
	Harness  string   `json:"harness"`
	Status   string   `json:"status"`
	Msg      string   `json:"msg"`
	Observed []string `json:"observed"`
	Covered  []string `json:"covered"`
	Known    []string `json:"known"`
	Stack    string   `json:"stack"`
}

// runNative runs harness cases of one package directory against the real
// build (go test with overlay).
func runNative(dir string, harnessNames []string, cases []nativeCase, extraOverlay map[string]string, thorough bool) ([]nativeOutcome, error) {
	outs, err := runNativeBatch(dir, harnessNames, cases, extraOverlay, thorough)
	if err == nil || len(cases) == 0 {
		return outs, err
	}
	if !strings.Contains(err.Error(), "panic:") && !strings.Contains(err.Error(), "fatal error:") {
		return nil, err
	}
	// the test process died (a panic in a goroutine the harness or the code
	// under test started cannot be recovered by the runner): run the cases
	// one by one and attribute the crash to the case that causes it
	outs = nil
	for _, c := range cases {
		o, err1 := runNativeBatch(dir, harnessNames, []nativeCase{c}, extraOverlay, thorough)
		if err1 == nil && len(o) == 1 {
			outs = append(outs, o[0])
			continue
		}
		msg := "process crashed"
		if err1 != nil {
			for _, l := range strings.Split(err1.Error(), "\n") {
				l = strings.TrimSpace(l)
				if strings.HasPrefix(l, "panic:") || strings.HasPrefix(l, "fatal error:") {
					msg = l
					break
				}
			}
			if msg == "process crashed" {
				return nil, err1
			}
		}
		outs = append(outs, nativeOutcome{Harness: c.Harness, Status: "panic", Msg: msg + " (the test process died: raised outside the harness goroutine)"})
	}
	return outs, nil
}

func runNativeBatch(dir string, harnessNames []string, cases []nativeCase, extraOverlay map[string]string, thorough bool) ([]nativeOutcome, error) {
	tmp, err := os.MkdirTemp("", "gosym-replay-")
	if err != nil {
		return nil, err
	}
	defer os.RemoveAll(tmp)
	ov, _ := buildOverlay([]string{dir})
	for k, v := range extraOverlay {
		ov[k] = v
	}
	// package name of the directory
	pkgName, err := packageName(filepath.Join(repoDir, dir))
	if err != nil {
		return nil, err
	}
	var sb strings.Builder
	sb.WriteString("//go:build verif\n\npackage " + pkgName + "\n\nimport (\n\t\"testing\"\n\n\t\"" + modPath + "/internal/verifrt\"\n)\n\n")
	sb.WriteString("func TestVerifReplay(t *testing.T) {\n\terr := verifrt.RunFile(map[string]func(){\n")
	for _, h := range harnessNames {
		sb.WriteString(fmt.Sprintf("\t\t%q: %s,\n", h, h))
	}
	sb.WriteString("\t})\n\tif err != nil {\n\t\tt.Fatal(err)\n\t}\n}\n")
	testFile := filepath.Join(tmp, "replay_test.go")
	if err := os.WriteFile(testFile, []byte(sb.String()), 0o644); err != nil {
		return nil, err
	}
	ov[filepath.Join(repoDir, dir, "zz_verif_replay_test.go")] = testFile
	ovJSON, _ := json.Marshal(map[string]interface{}{"Replace": ov})
	ovPath := filepath.Join(tmp, "overlay.json")
	os.WriteFile(ovPath, ovJSON, 0o644)
	inPath, outPath := filepath.Join(tmp, "in.json"), filepath.Join(tmp, "out.json")
	cb, _ := json.Marshal(cases)
	os.WriteFile(inPath, cb, 0o644)
	cmd := exec.Command("go", "test", "-tags", "verif", "-overlay", ovPath, "-vet=off", "-count=1", "-run", "^TestVerifReplay$", "-timeout", "20m", "./"+dir)
	cmd.Dir = repoDir
	env := []string{}
	for _, e := range os.Environ() {
		if strings.HasPrefix(e, "GOSUMDB=") || strings.HasPrefix(e, "GOTOOLCHAIN=") || strings.HasPrefix(e, "GOFLAGS=") || strings.HasPrefix(e, "GOPROXY=") || strings.HasPrefix(e, "VERIF_TIER=") {
			continue
		}
		env = append(env, e)
	}
	tier := "quick"
	if thorough {
		tier = "thorough"
	}
	env = append(env, "GOFLAGS=-mod=mod", "GOPROXY=off", "GOTOOLCHAIN=auto", "VERIF_REPLAY_IN="+inPath, "VERIF_REPLAY_OUT="+outPath, "VERIF_TIER="+tier)
	cmd.Env = env
	out, err := cmd.CombinedOutput()
	ob, rerr := os.ReadFile(outPath)
	if rerr != nil {
		return nil, fmt.Errorf("native replay failed: %v\n%s", err, tail(string(out), 40))
	}
	var outs []nativeOutcome
	if err := json.Unmarshal(ob, &outs); err != nil {
		return nil, err
	}
	return outs, nil
}

func tail(s string, n int) string {
	lines := strings.Split(s, "\n")
	if len(lines) > n {
		lines = lines[len(lines)-n:]
	}
	return strings.Join(lines, "\n")
}

func packageName(dir string) (string, error) {
	files, _ := filepath.Glob(filepath.Join(dir, "*.go"))
	for _, f := range files {
		if strings.HasSuffix(f, "_test.go") {
			continue
		}
		b, err := os.ReadFile(f)
		if err != nil {
			continue
		}
		for _, line := range strings.Split(string(b), "\n") {
			line = strings.TrimSpace(line)
			if strings.HasPrefix(line, "package ") {
				return strings.Fields(line)[1], nil
			}
		}
	}
	return "", fmt.Errorf("no package clause found in %s", dir)
}

type evidence struct {
	PropertyID  string                 `json:"property_id"`
	Tier        string                 `json:"tier"`
	Seed        int                    `json:"seed"`
	Level       string                 `json:"level"`
	Coverage    map[string]interface{} `json:"coverage"`
	Assumptions []string               `json:"assumptions"`
	WallS       float64                `json:"wall_s"`
	Violations  int                    `json:"violations"`
	Extra       map[string]interface{} `json:"technique_details"`
}

func cmdCheck(args []string) int {
	fs := flag.NewFlagSet("check", flag.ExitOnError)
	tierF := fs.String("tier", "", "quick|thorough (default: $VERIF_TIER, else quick)")
	workers := fs.Int("workers", runtime.NumCPU(), "workers")
	only := fs.String("only", "", "run only harnesses whose name contains this")
	noNative := fs.Bool("nonative", false, "skip native validation (debug)")
	if len(args) < 1 {
		fmt.Fprintln(os.Stderr, "usage: gosym check <ID> [--tier quick|thorough]")
		return 2
	}
	id := args[0]
	fs.Parse(args[1:])
	tier := *tierF
	if tier == "" {
		// the tier named on the command line wins; the environment only
		// supplies the default
		tier = "quick"
		if t := os.Getenv("VERIF_TIER"); t == "quick" || t == "thorough" {
			tier = t
		}
	}
	if tier != "quick" && tier != "thorough" {
		fmt.Fprintf(os.Stderr, "unknown tier %q\n", tier)
		return 2
	}
	seed := 0
	if s := os.Getenv("VERIF_SEED"); s != "" {
		seed, _ = strconv.Atoi(s)
	}
	thorough := tier == "thorough"
	pc := registry[id]
	if pc == nil {
		fmt.Fprintf(os.Stderr, "unknown property %s\n", id)
		return 2
	}
	overlayFilter = strings.ToLower(id)
	start := time.Now()
	evPath := filepath.Join(evidenceDir, id+".json")
	os.MkdirAll(filepath.Join(evidenceDir, "replays"), 0o755)

	var inconclusive []string
	ev := &evidence{PropertyID: id, Tier: tier, Seed: seed, Level: "model_checking", Coverage: map[string]interface{}{}, Extra: map[string]interface{}{}}
	ev.Assumptions = append([]string{}, pc.Assumptions...)
	finish := func(code int, nviol int) int {
		ev.WallS = time.Since(start).Seconds()
		ev.Violations = nviol
		ev.Extra["inconclusive"] = inconclusive
		ev.Extra["exit_code"] = code
		if _, ok := ev.Coverage["states"]; !ok {
			ev.Coverage["states"] = 0
			ev.Coverage["transitions"] = 0
			ev.Coverage["traces_validated_against_impl"] = 0
			ev.Coverage["samples"] = []interface{}{}
		}
		b, _ := json.MarshalIndent(ev, "", " ")
		os.WriteFile(evPath, b, 0o644)
		for _, s := range inconclusive {
			fmt.Printf("INCONCLUSIVE property=%s %s\n", id, s)
		}
		return code
	}

	// generated harness files
	genOverlay := map[string]string{}
	var genDir string
	if pc.Gen != nil {
		var err error
		genDir, err = os.MkdirTemp("", "gosym-gen-")
		if err != nil {
			inconclusive = append(inconclusive, err.Error())
			return finish(2, 0)
		}
		defer os.RemoveAll(genDir)
		genOverlay, err = pc.Gen(genDir)
		if err != nil {
			inconclusive = append(inconclusive, "harness generation failed: "+err.Error())
			return finish(2, 0)
		}
	}
	ov, _ := buildOverlay(pc.Dirs)
	for k, v := range genOverlay {
		ov[k] = v
	}
	var pats []string
	for _, d := range pc.Dirs {
		pats = append(pats, "./"+d)
	}
	loadStart := time.Now()
	prog, err := sym.Load(sym.LoadConfig{RepoDir: repoDir, Patterns: pats, Overlay: ov, Tags: "verif"})
	if err != nil {
		inconclusive = append(inconclusive, "loading /repo with harnesses failed (harness does not compile against this tree?): "+firstLines(err.Error(), 6))
		return finish(2, 0)
	}
	loadS := time.Since(loadStart).Seconds()

	hs := pc.Harnesses(thorough)
	var results []*sym.HarnessResult
	totalPaths, totalDecisions := 0, 0
	var solverStats sym.SolverStats
	funcs := map[string]int{}
	intr := map[string]int{}
	covers := map[string]map[string]int{}
	var allViol []violRec
	var samplesByDir = map[string][]sym.Sample{}
	harnessDir := map[string]string{}
	perHarness := []map[string]interface{}{}
	pendingViolation := false
	deadline := time.Time{}
	if lim := os.Getenv("GOSYM_TIME_LIMIT_S"); lim != "" {
		if n, err := strconv.Atoi(lim); err == nil {
			deadline = start.Add(time.Duration(n) * time.Second)
		}
	}
	onlyExact := false
	for _, h := range hs {
		if h.Func == *only {
			onlyExact = true
		}
	}
	for _, h := range hs {
		if *only != "" && (onlyExact && h.Func != *only || !onlyExact && !strings.Contains(h.Func, *only)) {
			continue
		}
		opts := h.Opts
		opts.Thorough = thorough
		opts.Seed = seed
		if opts.QueryTimeout == 0 {
			opts.QueryTimeout = 10000
			if thorough {
				opts.QueryTimeout = 60000
			}
		}
		spec := sym.HarnessSpec{Pkg: modPath + "/" + h.Dir, Func: h.Func, Opts: opts}
		hdl := deadline
		if pendingViolation {
			// an earlier harness already has an unattributed violation: the
			// remaining harnesses only get a short budget each
			if d := time.Now().Add(sym.ViolationGrace); hdl.IsZero() || d.Before(hdl) {
				hdl = d
			}
		}
		res := sym.RunHarness(prog, spec, *workers, 24, hdl)
		if !res.FirstViolation.IsZero() {
			pendingViolation = true
		}
		if res.StoppedEarly {
			fmt.Printf("harness %s: exploration stopped %s after the first violation\n", h.Func, sym.ViolationGrace)
		}
		results = append(results, res)
		harnessDir[h.Func] = h.Dir
		totalPaths += res.Paths
		totalDecisions += res.Stats.Decisions
		solverStats.Sat += res.Solver.Sat
		solverStats.Unsat += res.Solver.Unsat
		solverStats.Unknown += res.Solver.Unknown
		solverStats.Time += res.Solver.Time
		solverStats.Errors += res.Solver.Errors
		for k, v := range res.Funcs {
			funcs[k] += v
		}
		for k, v := range res.Intrinsics {
			intr[k] += v
		}
		covers[h.Func] = res.Covers
		if res.Error != "" {
			inconclusive = append(inconclusive, h.Func+": "+firstLines(res.Error, 12))
		}
		inconclusive = append(inconclusive, res.Inconclusive...)
		if res.Solver.Errors > 0 {
			inconclusive = append(inconclusive, fmt.Sprintf("%s: %d solver error lines", h.Func, res.Solver.Errors))
		}
		if res.Stats.UnknownBranches > 0 {
			// kept as feasible: sound for 'holds', recorded
			ev.Extra["unknown_branches_kept_feasible"] = res.Stats.UnknownBranches
		}
		if res.Completed == 0 && res.Error == "" && len(res.Violations) == 0 {
			inconclusive = append(inconclusive, h.Func+": vacuous: no path reached the end of the harness")
		}
		for _, v := range res.Violations {
			allViol = append(allViol, violRec{v: v, dir: h.Dir})
		}
		samplesByDir[h.Dir] = append(samplesByDir[h.Dir], res.Samples...)
		perHarness = append(perHarness, map[string]interface{}{
			"harness": h.Func, "package": h.Dir, "paths": res.Paths, "completed": res.Completed, "infeasible": res.Infeasible,
			"decisions": res.Stats.Decisions, "ssa_steps": res.Stats.Steps, "assertions_checked": res.Stats.Assertions,
			"decided_by_byte_domain": res.Stats.DomainDecided, "merged_calls": res.Stats.Merges, "regions_merged": res.Stats.Regions,
			"queries_sat": res.Solver.Sat, "queries_unsat": res.Solver.Unsat, "queries_unknown": res.Solver.Unknown,
			"solver_time_s": round2(res.Solver.Time.Seconds()), "wall_s": round2(res.WallS), "cover_points": res.Covers, "path_ends": res.EndKinds,
			"violations": len(res.Violations), "init_problems": res.InitProblems,
		})
		fmt.Printf("harness %s: paths=%d completed=%d violations=%d queries=%d/%d/%d (sat/unsat/unknown) domain=%d wall=%.1fs\n",
			h.Func, res.Paths, res.Completed, len(res.Violations), res.Solver.Sat, res.Solver.Unsat, res.Solver.Unknown, res.Stats.DomainDecided, res.WallS)
	}

	// ---- native validation: violations and sampled passing paths ----
	known := loadKnown()
	knownByKey := map[string]knownFinding{}
	for _, k := range known {
		if k.Property == id {
			knownByKey[k.Key] = k
		}
	}
	// group violations
	groups := map[string][]violRec{}
	var gkeys []string
	for _, vr := range allViol {
		k := vr.v.Harness + "|" + vr.v.KnownKey + "|" + normMsg(vr.v.Msg)
		if _, ok := groups[k]; !ok {
			gkeys = append(gkeys, k)
		}
		groups[k] = append(groups[k], vr)
	}
	sort.Strings(gkeys)
	schedDep := map[string]bool{}
	for _, h := range hs {
		schedDep[h.Func] = h.SchedDependent
	}
	harnessNamesByDir := map[string][]string{}
	for _, h := range hs {
		harnessNamesByDir[h.Dir] = appendUniq(harnessNamesByDir[h.Dir], h.Func)
	}
	validated := 0
	mismatches := 0
	reported := 0
	knownReported := map[string]bool{}
	var sampleOut []interface{}
	for dir, names := range harnessNamesByDir {
		var cases []nativeCase
		type meta struct {
			kind   string // "viol" / "sample"
			gkey   string
			sample *sym.Sample
			vr     *violRec
		}
		var metas []meta
		for _, gk := range gkeys {
			g := groups[gk]
			if g[0].dir != dir {
				continue
			}
			n := len(g)
			if n > 3 {
				n = 3
			}
			for i := 0; i < n; i++ {
				nc := nativeCase{Harness: g[i].v.Harness, Vector: g[i].v.Vector}
				if schedDep[nc.Harness] {
					nc.Repeat = 400
				}
				cases = append(cases, nc)
				metas = append(metas, meta{kind: "viol", gkey: gk, vr: &g[i]})
			}
		}
		ss := samplesByDir[dir]
		for i := range ss {
			if schedDep[ss[i].Harness] {
				// draws made by several goroutines are consumed in a
				// schedule-dependent order natively: passing samples of
				// such harnesses are not replayed
				if len(sampleOut) < 12 {
					sampleOut = append(sampleOut, ss[i])
				}
				continue
			}
			cases = append(cases, nativeCase{Harness: ss[i].Harness, Vector: ss[i].Vector})
			metas = append(metas, meta{kind: "sample", sample: &ss[i]})
		}
		if len(cases) == 0 || *noNative {
			for i := range ss {
				if len(sampleOut) < 12 {
					sampleOut = append(sampleOut, ss[i])
				}
			}
			continue
		}
		outs, err := runNative(dir, names, cases, genOverlay, thorough)
		if err != nil {
			inconclusive = append(inconclusive, "native replay: "+firstLines(err.Error(), 30))
			continue
		}
		confirmed := map[string]*nativeOutcome{}
		confirmedVR := map[string]*violRec{}
		unconfirmed := map[string]string{}
		for i, o := range outs {
			mt := metas[i]
			switch mt.kind {
			case "sample":
				ok := o.Status == "ok" && (schedDep[o.Harness] || (equalStrings(o.Observed, mt.sample.Observed) && equalStrings(o.Covered, mt.sample.Covers)))
				if ok {
					validated++
				} else {
					mismatches++
					inconclusive = append(inconclusive, fmt.Sprintf("translator validation mismatch: harness %s vector %v: engine observed %v covers %v, native status %s %s observed %v covers %v",
						o.Harness, mt.sample.Vector, mt.sample.Observed, mt.sample.Covers, o.Status, o.Msg, o.Observed, o.Covered))
				}
				if len(sampleOut) < 12 {
					sampleOut = append(sampleOut, mt.sample)
				}
			case "viol":
				repro := false
				if mt.vr.v.Panic {
					repro = o.Status == "panic" || o.Status == "hang"
				} else {
					repro = o.Status == "assert-failed" || o.Status == "panic" || o.Status == "hang"
				}
				if repro {
					if confirmed[mt.gkey] == nil {
						oc := o
						confirmed[mt.gkey] = &oc
						confirmedVR[mt.gkey] = mt.vr
					}
				} else if _, ok := unconfirmed[mt.gkey]; !ok {
					unconfirmed[mt.gkey] = fmt.Sprintf("native outcome %s %s", o.Status, o.Msg)
				}
			}
		}
		for _, gk := range gkeys {
			g := groups[gk]
			if g[0].dir != dir {
				continue
			}
			oc := confirmed[gk]
			if oc == nil && schedDep[g[0].v.Harness] {
				// schedule-dependent: the interleaving is recorded in the
				// replay file and reproduces in the interpreter; the native
				// stress run did not hit it
				oc = &nativeOutcome{Harness: g[0].v.Harness, Status: "interpreter-only", Msg: "schedule-dependent counterexample: reproduces under the recorded interleaving in the executor; 400 native runs under the real scheduler did not hit it"}
				confirmed[gk] = oc
				confirmedVR[gk] = &groups[gk][0]
			}
			if oc == nil {
				inconclusive = append(inconclusive, fmt.Sprintf("counterexample of %s (%s) did not reproduce natively (%s): encoding or stub problem, not reported as violation", g[0].v.Harness, g[0].v.Msg, unconfirmed[gk]))
				continue
			}
			vr := confirmedVR[gk]
			rf := replayFile{Property: id, Dir: dir, Harness: vr.v.Harness, Vector: vr.v.Vector, Draws: vr.v.Draws, Msg: vr.v.Msg, Where: vr.v.Where, KnownKey: vr.v.KnownKey, Tier: tier, Native: oc.Status + " " + oc.Msg}
			h := sha1.Sum([]byte(fmt.Sprint(rf.Harness, rf.Vector)))
			rpath := filepath.Join(evidenceDir, "replays", fmt.Sprintf("%s-%s-%x.json", id, rf.Harness, h[:4]))
			rb, _ := json.MarshalIndent(rf, "", " ")
			os.WriteFile(rpath, rb, 0o644)
			if kf, ok := knownByKey[vr.v.KnownKey]; ok && vr.v.KnownKey != "" && kf.Status == "known" {
				if !knownReported[kf.Key] {
					knownReported[kf.Key] = true
					fmt.Printf("KNOWN-FINDING: property=%s %s [%s; replay=%s]\n", id, kf.What, kf.Key, rpath)
				}
				continue
			}
			reported++
			fmt.Printf("VIOLATION property=%s replay=%s\n", id, rpath)
			fmt.Printf("  harness=%s msg=%q native=%s %s (%d paths in this class)\n", rf.Harness, rf.Msg, oc.Status, oc.Msg, len(g))
		}
	}
	// known findings that did not show up
	for _, k := range known {
		if k.Property == id && k.Status == "known" && !knownReported[k.Key] {
			fmt.Printf("NOTE: known finding %s (%s) was not observed in this run\n", k.Key, k.What)
		}
	}
	// cover points: every declared label must have been reached
	for _, h := range hs {
		if *only != "" && (onlyExact && h.Func != *only || !onlyExact && !strings.Contains(h.Func, *only)) {
			continue
		}
		if h.NoCoverCheck {
			continue
		}
		want := declaredCovers(h)
		for _, l := range want {
			if covers[h.Func][l] == 0 {
				inconclusive = append(inconclusive, fmt.Sprintf("%s: vacuous: cover point %q not reached", h.Func, l))
			}
		}
	}

	// ---- evidence ----
	var fnList []string
	for k := range funcs {
		fnList = append(fnList, k)
	}
	sort.Strings(fnList)
	byPkg := map[string][]string{}
	for _, f := range fnList {
		byPkg[pkgOfName(f)] = append(byPkg[pkgOfName(f)], f)
	}
	var intrList []string
	for k := range intr {
		intrList = append(intrList, k)
	}
	sort.Strings(intrList)
	ev.Coverage["states"] = totalPaths
	ev.Coverage["transitions"] = totalDecisions
	ev.Coverage["traces_validated_against_impl"] = validated
	if len(sampleOut) == 0 {
		sampleOut = append(sampleOut, map[string]string{"note": "no completed path"})
	}
	ev.Coverage["samples"] = sampleOut
	ev.Coverage["exhaustive"] = false
	ev.Coverage["explanation"] = "states = symbolic paths explored to their end (each covers all inputs satisfying its path condition); transitions = decisions taken (branches on symbolic conditions, input-shape choices, value enumerations); traces_validated_against_impl = sampled paths whose solver model was replayed natively against the real build with identical observations"
	ev.Extra["functions_encoded"] = byPkg
	ev.Extra["functions_encoded_count"] = len(fnList)
	ev.Extra["intrinsics_used"] = intrList
	ev.Extra["stubs_and_models"] = pc.Stubs
	if pc.Bounds != nil {
		ev.Extra["bounds"] = pc.Bounds(thorough)
	}
	outside := append([]string(nil), pc.Outside...)
	if pc.OutsideDyn != nil {
		for _, o := range pc.OutsideDyn() {
			fmt.Printf("NOTE property=%s outside the claim: %s\n", id, o)
			outside = append(outside, o)
		}
	}
	ev.Extra["outside_bound"] = outside
	ev.Extra["queries"] = map[string]int{"sat": solverStats.Sat, "unsat": solverStats.Unsat, "unknown": solverStats.Unknown}
	ev.Extra["solver_time_s"] = round2(solverStats.Time.Seconds())
	ev.Extra["solver"] = "z3 4.8.12 (/usr/bin/z3 -in), incremental, one process per worker"
	ev.Extra["harnesses"] = perHarness
	ev.Extra["load_s"] = round2(loadS)
	ev.Extra["workers"] = *workers
	ev.Extra["translator_validation_mismatches"] = mismatches
	ev.Extra["violation_classes_found"] = len(gkeys)
	ev.Extra["known_findings_observed"] = keysOf(knownReported)
	ev.Extra["technique"] = pc.Technique

	code := 0
	if reported > 0 {
		code = 1
	} else if len(inconclusive) > 0 {
		code = 2
	}
	if code == 0 {
		fmt.Printf("OK property=%s tier=%s paths=%d decisions=%d queries=%d validated_traces=%d wall=%.1fs\n", id, tier, totalPaths, totalDecisions, solverStats.Sat+solverStats.Unsat+solverStats.Unknown, validated, time.Since(start).Seconds())
	}
	return finish(code, reported)
}

type violRec struct {
	v   sym.Violation
	dir string
}

func normMsg(s string) string {
	// strip positions in brackets so that the same panic groups together
	if i := strings.Index(s, " ["); i >= 0 {
		s = s[:i]
	}
	return s
}

func keysOf(m map[string]bool) []string {
	var ks []string
	for k := range m {
		ks = append(ks, k)
	}
	sort.Strings(ks)
	return ks
}

func appendUniq(s []string, v string) []string {
	for _, x := range s {
		if x == v {
			return s
		}
	}
	return append(s, v)
}

func equalStrings(a, b []string) bool {
	if len(a) != len(b) {
		return false
	}
	for i := range a {
		if a[i] != b[i] {
			return false
		}
	}
	return true
}

func firstLines(s string, n int) string {
	lines := strings.Split(s, "\n")
	if len(lines) > n {
		lines = lines[:n]
	}
	return strings.Join(lines, " | ")
}

func round2(f float64) float64 { return float64(int(f*100+0.5)) / 100 }

func pkgOfName(f string) string {
	// "(*net/netip.Addr).Is4" or "net/netip.ParseAddr" or "strings.Cut"
	s := strings.TrimLeft(f, "(*")
	if i := strings.LastIndex(s, "/"); i >= 0 {
		rest := s[i+1:]
		if j := strings.IndexAny(rest, ".)"); j >= 0 {
			return s[:i+1+j]
		}
	}
	if j := strings.IndexAny(s, ".)"); j >= 0 {
		return s[:j]
	}
	return s
}

// declaredCovers scans the harness source for verifrt.Cover("label") calls in
// the harness function's file (labels prefixed with the harness name are
// attributed to it; unprefixed labels in the same function body too).
func declaredCovers(h harnessCfg) []string {
	files, _ := filepath.Glob(filepath.Join(verifDir, "harness", h.Dir, "*.go"))
	var labels []string
	for _, f := range files {
		b, err := os.ReadFile(f)
		if err != nil {
			continue
		}
		src := string(b)
		idx := strings.Index(src, "func "+h.Func+"()")
		if idx < 0 {
			continue
		}
		body := src[idx:]
		if end := strings.Index(body[1:], "\nfunc "); end >= 0 {
			body = body[:end+1]
		}
		for {
			i := strings.Index(body, "verifrt.Cover(\"")
			if i < 0 {
				break
			}
			body = body[i+len("verifrt.Cover(\""):]
			j := strings.Index(body, "\"")
			if j < 0 {
				break
			}
			labels = appendUniq(labels, body[:j])
		}
	}
	return labels
}

func cmdReplay(args []string) int {
	if len(args) < 1 {
		fmt.Fprintln(os.Stderr, "usage: gosym replay <file>")
		return 2
	}
	b, err := os.ReadFile(args[0])
	if err != nil {
		fmt.Fprintln(os.Stderr, err)
		return 2
	}
	var rf replayFile
	if err := json.Unmarshal(b, &rf); err != nil {
		fmt.Fprintln(os.Stderr, err)
		return 2
	}
	pc := registry[rf.Property]
	overlayFilter = strings.ToLower(rf.Property)
	genOverlay := map[string]string{}
	if pc != nil && pc.Gen != nil {
		genDir, err := os.MkdirTemp("", "gosym-gen-")
		if err != nil {
			fmt.Fprintln(os.Stderr, err)
			return 2
		}
		defer os.RemoveAll(genDir)
		genOverlay, err = pc.Gen(genDir)
		if err != nil {
			fmt.Fprintln(os.Stderr, err)
			return 2
		}
	}
	outs, err := runNative(rf.Dir, []string{rf.Harness}, []nativeCase{{Harness: rf.Harness, Vector: rf.Vector}}, genOverlay, rf.Tier == "thorough")
	if err != nil {
		fmt.Fprintln(os.Stderr, err)
		return 2
	}
	o := outs[0]
	fmt.Printf("replay %s harness=%s vector=%v\n  recorded: %s\n  native:   %s %s\n", rf.Property, rf.Harness, rf.Vector, rf.Msg, o.Status, o.Msg)
	if o.Stack != "" {
		fmt.Println(o.Stack)
	}
	if o.Status == "assert-failed" || o.Status == "panic" || o.Status == "hang" {
		fmt.Printf("VIOLATION property=%s replay=%s\n", rf.Property, args[0])
		return 1
	}
	return 0
}
