package main

import "gosym/sym"

func init() {
	register(&propCheck{
		ID:   "C02",
		Dirs: []string{"netutil"},
		Harnesses: func(thorough bool) []harnessCfg {
			o := sym.Options{}
			return []harnessCfg{
				{Dir: "netutil", Func: "VerifC02IPString", Opts: o},
				{Dir: "netutil", Func: "VerifC02IPv6Shapes", Opts: o},
				{Dir: "netutil", Func: "VerifC02IPPortString", Opts: o},
				{Dir: "netutil", Func: "VerifC02IPPortShapes", Opts: o},
				{Dir: "netutil", Func: "VerifC02LongPorts", Opts: o},
				{Dir: "netutil", Func: "VerifC02Label", Opts: o},
				{Dir: "netutil", Func: "VerifC02Hostname", Opts: o},
				{Dir: "netutil", Func: "VerifC02HostnameBoundaries", Opts: o},
				{Dir: "netutil", Func: "VerifC02HostnameIDN", Opts: o},
			}
		},
		Bounds: func(thorough bool) map[string]string {
			n, h := "6", "5"
			if thorough {
				n, h = "8", "7"
			}
			return map[string]string{
				"IsValidIPString / IsValidIPPortString, free strings": "every byte string of length 0.." + n + " (all 256 values per byte)",
				"IPv6 shape family":             "0..9 hex fields, optional '::' at every gap (incl. leading/trailing), optional dotted-quad tail, optional %zone of one arbitrary byte; all digits symbolic (quick: fields are 1 decimal digit; thorough: the first field and one field of width 2..5 (any position) are hex digits of any case, the others decimal; first octet 1..3 digits)",
				"addr:port shapes":              "'[' 0..4 arbitrary bytes ']:' port, 'd.d.d.d:' port, '[h::h%z]:' port; port = one of {'', 0, 655, 6553, 65535, 9999} followed by 0..2 arbitrary bytes",
				"long ports":                    "'1.2.3.4:' or '[::1]:' followed by 1..7 (thorough 1..10) arbitrary decimal digits, or by 0..3 zeros + the leading digits of 2^16/2^31/2^32/2^63/2^64 + five arbitrary digits (every value within 10^5 of those powers, where an accumulator of that width wraps); reference: the real strconv.ParseUint",
				"IsValidHostnameLabel":          "every byte string of length 0..65",
				"IsValidHostname, free strings": "every ASCII string of length 0.." + h + " without an 'xn--' label, through the real idna.ToASCII",
				"IsValidHostname, IDN lengths":  "29..32 labels 'я' (3k raw / 8k punycode bytes) or 3..5 labels of 40 'а' (81k raw bytes, short punycode) + a final label 'c'+one arbitrary ASCII byte, through the real idna.ToASCII",
				"IsValidHostname, boundaries":   "label lengths 1/62/63/64 and total lengths 252/253/254 with hostname-alphabet bytes and one arbitrary ASCII byte at a chosen position",
			}
		},
		Outside:     []string{"free-form IP strings longer than the bound that are not in the shape families", "hostnames with non-ASCII bytes outside the IDN length family, or with 'xn--' labels", "hostnames longer than the bound outside the boundary shapes"},
		Assumptions: []string{"the reference parsers are the real netip.ParseAddr / ParseAddrPort / ValidateHostname / ValidateHostnameLabel, executed from their go1.24.2 / repo sources"},
		Stubs:       []string{"fmt.Errorf/Sprintf (error texts opaque)", "unique.Make (interning intrinsic)", "internal/bytealg index/count primitives (engine intrinsics forking on the match position)"},
		Technique:   "SSA->SMT bounded symbolic execution; differential harness implementation vs. real reference parser on the same symbolic string",
	})
}
