package main

import (
	"go/ast"
	"go/parser"
	"go/token"
	"path/filepath"
	"sort"
	"strings"

	"gosym/sym"
)

// c01Driven lists the exported functions/methods of the five packages that a
// C01 harness calls; c01Excluded those that are not driven, with the reason.
// An exported function in neither list is reported as outside the claim (NOTE
// line and outside_bound in the evidence); the check still decides the rest.
var c01Driven = strings.Fields(`
netutil.CloneIPs netutil.CloneURL netutil.ExtractReversedAddr netutil.IPAndPortFromAddr netutil.IPFromReversedAddr
netutil.IPNetToPrefix netutil.IPNetToPrefixNoMapped netutil.IPToAddr netutil.IPToAddrNoMapped netutil.IPToReversedAddr
netutil.IsImmediateSubdomain netutil.IsLocallyServed netutil.IsSpecialPurpose netutil.IsSubdomain netutil.IsValidHostInnerRune
netutil.IsValidHostOuterRune netutil.IsValidHostname netutil.IsValidHostnameLabel netutil.IsValidIPPortString netutil.IsValidIPString
netutil.JoinHostPort netutil.NetAddrToAddrPort netutil.ParseHostPort netutil.ParseIP netutil.ParseIPv4 netutil.PreferIPv4 netutil.PreferIPv6
netutil.PrefixFromReversedAddr netutil.SplitHost netutil.SplitHostPort netutil.Subdomains netutil.UnembedPrefixes netutil.ValidateDomainName
netutil.ValidateDomainNameLabel netutil.ValidateHostname netutil.ValidateHostnameLabel netutil.ValidateIP netutil.ValidateMAC
netutil.ValidateSRVDomainName netutil.ValidateServiceNameLabel netutil.ValidateTLDLabel netutil.ZeroPrefix netutil.AddrFamilyFromRRType
netutil.CloneHostPorts netutil.AddrFamily.String netutil.HostPort.Clone netutil.HostPort.MarshalText netutil.HostPort.String
netutil.HostPort.UnmarshalText netutil.Prefix.UnmarshalText netutil.SliceSubnetSet.Contains netutil.SubnetSetFunc.Contains
netutil.AddrError.Error netutil.LabelError.Error
hostsfile.NewDefaultStorage hostsfile.Record.UnmarshalText hostsfile.Record.MarshalText hostsfile.LineError.Error hostsfile.LineError.Unwrap
hostsfile.DiscardSet.Add hostsfile.FuncSet.Add hostsfile.DefaultStorage.HandleInvalid hostsfile.DefaultStorage.ByName hostsfile.DefaultStorage.ByAddr
hostsfile.DefaultStorage.Equal
urlutil.Parse urlutil.URL.UnmarshalText urlutil.URL.UnmarshalJSON urlutil.URL.MarshalText urlutil.ValidateFileURL urlutil.ValidateGRPCURL
urlutil.ValidateHTTPURL urlutil.IsValidGRPCURLScheme urlutil.IsValidHTTPURLScheme urlutil.RedactUserinfo urlutil.RedactUserinfoInURLError
stringutil.CloneSliceOrEmpty stringutil.ContainsFold stringutil.FilterOut stringutil.SplitTrimmed stringutil.WriteToBuilder
`)

var c01Excluded = map[string]string{
	"netutil.IPv4Localhost": "no input", "netutil.IPv6Localhost": "no input", "netutil.IPv4Zero": "no input", "netutil.IPv6Zero": "no input",
	"netutil.IPv4allrouter": "no input", "netutil.IPv4allsys": "no input", "netutil.IPv4bcast": "no input",
	"netutil.AddrError.Unwrap": "field accessor", "netutil.LabelError.Unwrap": "field accessor", "netutil.LengthError.Error": "formatting only (fmt stubbed)", "netutil.RuneError.Error": "formatting only (fmt stubbed)",
	"hostsfile.DefaultHostsPaths": "file system", "hostsfile.Parse": "driven by the C08 harness (any panic there is reported under C08)",
	"hostsfile.DefaultStorage.Add": "driven by the C08 harness", "hostsfile.DefaultStorage.RangeNames": "driven by the C08 harness", "hostsfile.DefaultStorage.RangeAddrs": "driven by the C08 harness",
	"timeutil.Duration.String": "driven by the C14 Duration harnesses on a one-byte-symbolic family (any panic there is reported under C14)", "timeutil.Duration.MarshalText": "same as Duration.String",
	"timeutil.Duration.UnmarshalText": "driven by the C14 Duration harnesses on texts produced by String (arbitrary texts go through time.ParseDuration floating point, not modelled)",
	"timeutil.NewConstSchedule":       "no text/bytes/IP input", "timeutil.NewCronSchedule": "no text input", "timeutil.NewRandomizedSchedule": "no text input",
	"timeutil.ConstSchedule.UntilNext": "no text input", "timeutil.CronSchedule.UntilNext": "no text input", "timeutil.RandomizedSchedule.UntilNext": "no text input",
	"timeutil.SystemClock.Now": "clock", "timeutil.SystemClock.After": "clock",
}

// exportedAPI lists exported functions and methods (on exported types) of a
// package directory from its non-test sources.
func exportedAPI(dir, pkgName string) ([]string, error) {
	fset := token.NewFileSet()
	files, _ := filepath.Glob(filepath.Join(repoDir, dir, "*.go"))
	var out []string
	for _, f := range files {
		if strings.HasSuffix(f, "_test.go") {
			continue
		}
		af, err := parser.ParseFile(fset, f, nil, 0)
		if err != nil {
			return nil, err
		}
		for _, d := range af.Decls {
			fd, ok := d.(*ast.FuncDecl)
			if !ok || !fd.Name.IsExported() {
				continue
			}
			name := fd.Name.Name
			if fd.Recv != nil && len(fd.Recv.List) == 1 {
				t := fd.Recv.List[0].Type
				if st, ok := t.(*ast.StarExpr); ok {
					t = st.X
				}
				if ix, ok := t.(*ast.IndexExpr); ok {
					t = ix.X
				}
				id, ok := t.(*ast.Ident)
				if !ok || !id.IsExported() {
					continue
				}
				name = id.Name + "." + name
			}
			out = append(out, pkgName+"."+name)
		}
	}
	sort.Strings(out)
	return out, nil
}

func genC01(genDir string) (map[string]string, error) {
	driven := map[string]bool{}
	for _, d := range c01Driven {
		driven[d] = true
	}
	var unknown []string
	for dir, pkg := range map[string]string{"netutil": "netutil", "hostsfile": "hostsfile", "netutil/urlutil": "urlutil", "stringutil": "stringutil", "timeutil": "timeutil"} {
		api, err := exportedAPI(dir, pkg)
		if err != nil {
			return nil, err
		}
		for _, a := range api {
			if !driven[a] && c01Excluded[a] == "" {
				unknown = append(unknown, a)
			}
		}
	}
	sort.Strings(unknown)
	c01NotDriven = unknown
	return map[string]string{}, nil
}

// c01NotDriven: exported functions of the current tree that no C01 harness
// calls and that are not in the exclusion table (functions added after the
// harnesses were written).  They are outside the claim and reported as such.
var c01NotDriven []string

func init() {
	register(&propCheck{
		ID:   "C01",
		Dirs: []string{"netutil", "hostsfile", "netutil/urlutil", "stringutil"},
		Gen:  genC01,
		Harnesses: func(thorough bool) []harnessCfg {
			o := sym.Options{}
			return []harnessCfg{
				{Dir: "netutil", Func: "VerifC01Bytes", Opts: o},
				{Dir: "netutil", Func: "VerifC01Names", Opts: o},
				{Dir: "netutil", Func: "VerifC01ARPA", Opts: o},
				{Dir: "netutil", Func: "VerifC01ARPAText", Opts: o},
				{Dir: "netutil", Func: "VerifC01Nibbles", Opts: o},
				{Dir: "netutil", Func: "VerifC01IPs", Opts: o},
				{Dir: "netutil", Func: "VerifC01Addrs", Opts: o},
				{Dir: "hostsfile", Func: "VerifC01Record", Opts: o},
				{Dir: "netutil/urlutil", Func: "VerifC01URL", Opts: o},
				{Dir: "stringutil", Func: "VerifC01Strings", Opts: o},
			}
		},
		Bounds: func(thorough bool) map[string]string {
			n, k := "5", "10"
			if thorough {
				n, k = "7", "34"
			}
			return map[string]string{
				"byte strings":   "every byte string (all 256 values) of length 0.." + n + " for the functions that do not go through idna.ToASCII; every ASCII string of that length (no 'xn--' label) for those that do",
				"ARPA names":     "X ++ root for every ASCII X of length 0.." + n + " (4 spellings of the roots, joint inside X); ip6.arpa names of 0.." + k + " one-byte labels with one label 2..3 bytes wide at any position; address-shaped texts before the roots: optional '::', 0..2 hex fields of 1..2 digits each followed by ':' or '::', 0..4 decimal labels of 1..2 digits, optional %zone byte",
				"net.IP / masks": "lengths nil, 0, 1, 3, 4, 5, 15, 16, 17 with symbolic bytes; masks nil, 0, 3, 4, 16, 17; fam in {IPv4, IPv6} (documented precondition); net.Addr in {nil, TCP, UDP, IP, Unix}",
				"netip values":   "zero Addr, IPv4, IPv6, IPv4-mapped, zoned (all address bits symbolic); prefix lengths 0..255; runes: all 32-bit values",
				"hostsfile":      "Record.UnmarshalText on every ASCII line of length 0..4|6; MarshalText on symbolic addresses and names; storage accessors",
				"urlutil":        "Parse / UnmarshalText / UnmarshalJSON(string token, the one-byte token '\"', null, empty) on every byte string of length 0..3|4; validators and redaction on symbolic url.URL fields",
				"stringutil":     "ContainsFold(|s|<=4|5, |sub|<=2), SplitTrimmed(|s|<=4|5, |sep|<=2): 7-bit bytes",
			}
		},
		Outside: []string{"strings longer than the bounds", "names with non-ASCII bytes or 'xn--' labels through idna.ToASCII", "urlutil.URL.UnmarshalJSON on non-string JSON values (encoding/json reflection)",
			"timeutil.Duration text methods (see the exclusion table in the evidence)", "panics inside fmt formatting (stubbed)"},
		Assumptions: []string{"documented preconditions assumed: fam is IPv4 or IPv6; RedactUserinfo's u is not nil", "an exported function that is neither driven nor in the exclusion table (added after the harnesses were written) is listed in outside_bound and printed as a NOTE; it is not covered"},
		Stubs:       append([]string{"fmt.* and address String() methods (formatting, opaque)", "unique.Make (interning)", "log.* (empty)"}, modelStubs...),
		OutsideDyn: func() (out []string) {
			for _, f := range c01NotDriven {
				out = append(out, "exported function not driven by any C01 harness: "+f)
			}
			return out
		},
		Technique: "SSA->SMT bounded symbolic execution with every Go run-time panic site, explicit panic and unwinding failure as an assertion; no oracle",
	})
}
