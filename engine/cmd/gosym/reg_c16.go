package main

import "gosym/sym"

func init() {
	register(&propCheck{
		ID:   "C16",
		Dirs: []string{"netutil/urlutil"},
		Harnesses: func(thorough bool) []harnessCfg {
			o := sym.Options{}
			return []harnessCfg{
				{Dir: "netutil/urlutil", Func: "VerifC16Redact", Opts: o},
				{Dir: "netutil/urlutil", Func: "VerifC16NoUserinfo", Opts: o},
				{Dir: "netutil/urlutil", Func: "VerifC16InError", Opts: o},
			}
		},
		Bounds: func(thorough bool) map[string]string {
			return map[string]string{
				"credentials": "two independent userinfos: username 0..2 arbitrary bytes, password absent or 0..2 arbitrary bytes (so empty, escaped-looking and mask-like values are inside)",
				"URL":         "every component in turn (scheme, opaque, host, path, raw path, raw query, fragment, raw fragment) holds 0..2 arbitrary bytes while the others hold a fixed typical value; OmitHost and ForceQuery arbitrary",
				"errors":      "nil, top-level *url.Error, another error type, an *url.Error wrapped by errors.Join",
			}
		},
		Outside:     []string{"components longer than 2 bytes and several arbitrary components at once (the functions never inspect component contents: this bounds URL.String, not the redaction)"},
		Assumptions: []string{"the real net/url URL.String is executed on both results"},
		Stubs:       []string{"fmt.* (opaque)"},
		Technique:   "SSA->SMT bounded symbolic execution; two-run (non-interference style) harness: field-wise equality of the two redacted URLs and equality of their real URL.String() output",
	})
}
