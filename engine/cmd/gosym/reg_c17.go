package main

import "gosym/sym"

func init() {
	register(&propCheck{
		ID:   "C17",
		Dirs: []string{"syncutil"},
		Harnesses: func(thorough bool) []harnessCfg {
			o := sym.Options{MaxSwitches: 2}
			if thorough {
				o.MaxSwitches = 3
			}
			return []harnessCfg{
				{Dir: "syncutil", Func: "VerifC17Once", Opts: o, SchedDependent: true},
				{Dir: "syncutil", Func: "VerifC17OnceGate", Opts: o, SchedDependent: true},
				{Dir: "syncutil", Func: "VerifC17Sema", Opts: o, SchedDependent: true},
				{Dir: "syncutil", Func: "VerifC17SemaHold", Opts: o, SchedDependent: true},
				{Dir: "syncutil", Func: "VerifC17SemaCause", Opts: o},
			}
		},
		Bounds: func(thorough bool) map[string]string {
			g, p, c := "2", "2", "0..2, 3 clients"
			if thorough {
				g, p, c = "3", "3", "0..3, 3 clients"
			}
			return map[string]string{
				"OnceConstructor[int,*T]": g + " concurrent Gets with symbolic keys in {0,1} (key equality decided by the solver) + a later Get; gate variant: 2 Gets of a key whose construction blocks + 1 Get of another key that must finish first",
				"ChanSemaphore":           "capacity " + c + " (Release only after a successful Acquire) + a canceller; a hold variant (capacity 1, the holder keeps the slot until the other client's Acquire returned, which is only possible through cancellation); context is a harness stub honouring the context.Context contract; plus (sequential) contexts of the real context package cancelled with and without an explicit cause (WithCancelCause, directly and through an embedding user type) while every slot is held (capacity 0..2): the failed Acquire returns the context's error, leaves the number of held slots unchanged, and a further Acquire fails too",
				"schedules":               "all interleavings at synchronisation points (channel ops, select, Mutex, sync.Map, WaitGroup, goroutine start/exit) with at most " + p + " preemptions; every interleaving also checked by a happens-before race detector",
			}
		},
		Outside:     []string{"more goroutines / more preemptions", "the real context and sync.Map implementations (sync.Map methods are atomic intrinsics)", "constructors that panic", "weak-memory effects beyond Go's happens-before model"},
		Assumptions: []string{"channel, select, Mutex, WaitGroup, sync.Map and atomic semantics are the engine's model of the Go spec / memory model", "scheduler choices are explored exhaustively within the preemption bound (the solver decides the data: keys), not sampled"},
		Stubs:       []string{"sync.Map Load/LoadOrStore: atomic association-list intrinsic", "sync.WaitGroup, sync.Mutex, sync/atomic: engine intrinsics", "context.Context: harness stub"},
		Technique:   "SSA->SMT bounded symbolic execution with goroutines under a scheduler whose choices are decision variables of the same DFS; preemption-bounded exhaustive interleavings + vector-clock race detection",
	})
}
