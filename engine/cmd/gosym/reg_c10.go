package main

import "gosym/sym"

func init() {
	register(&propCheck{
		ID:   "C10",
		Dirs: []string{"cache"},
		Harnesses: func(thorough bool) []harnessCfg {
			o := sym.Options{MaxSwitches: 2}
			if thorough {
				o.MaxSwitches = 3
			}
			return []harnessCfg{
				{Dir: "cache", Func: "VerifC10Concurrent", Opts: o, SchedDependent: true},
				{Dir: "cache", Func: "VerifC10FullWindow", Opts: o, SchedDependent: true},
			}
		},
		Bounds: func(thorough bool) map[string]string {
			if thorough {
				return map[string]string{
					"goroutines":        "2 goroutines with 2 + 1 operations over Set/Get/Del/Clear/Stats with symbolic keys in {0,1}",
					"configuration":     "MaxCount in {1,2}, LRU on/off, OnDelete nil or checking (LRU only); after the concurrent phase a sequential epilogue (Get of every key, three fresh insertions) checks Count/Size/retrievability",
					"full-cache window": "from a full LRU cache (MaxCount 2, keys 0 and 1, either one the oldest, OnDelete installed): one goroutine does one Set on any of three keys (so it evicts and opens the unlocked OnDelete window), the other one Set/Get/Del/Clear on any of three keys; same epilogue; same preemption bound and race detection",
					"schedules":         "all interleavings at lock/unlock/atomic/goroutine start and exit with at most 3 preemptions; vector-clock happens-before race detection on every plain access in every interleaving",
				}
			}
			return map[string]string{
				"goroutines":        "2 goroutines with 2 + 1 operations over Set/Get/Del/Clear/Stats with symbolic keys in {0,1}",
				"configuration":     "MaxCount in {1,2}, LRU on/off, OnDelete nil or checking (LRU only); after the concurrent phase a sequential epilogue (Get of every key, three fresh insertions) checks Count/Size/retrievability",
				"full-cache window": "from a full LRU cache (MaxCount 2, keys 0 and 1, either one the oldest, OnDelete installed): one goroutine does one Set on any of three keys (so it evicts and opens the unlocked OnDelete window), the other one Set/Get/Del/Clear on any of three keys; same epilogue; same preemption bound and race detection",
				"schedules":         "all interleavings at synchronisation points with at most 2 preemptions; happens-before race detection in every interleaving",
			}
		},
		Outside: []string{"full linearizability of Get results (checked: a Get never returns another key's, a torn or a never-set value; Stats bounds in every snapshot; final Size/Count consistency)",
			"more goroutines/operations/preemptions", "the Go runtime's map implementation and weak-memory effects beyond the happens-before model"},
		Assumptions: []string{"a data race is two conflicting plain accesses to the same slot/map not ordered by happens-before (mutex, atomics, goroutine start/exit, channels), as in the Go memory model"},
		Stubs:       []string{"sync.Mutex, sync/atomic, sync.WaitGroup: engine intrinsics with happens-before edges"},
		Technique:   "SSA->SMT bounded symbolic execution with goroutines: preemption-bounded exhaustive interleavings, symbolic keys, FastTrack-style happens-before race detector on the interpreter's memory accesses",
	})
}
