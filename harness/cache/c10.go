//go:build verif

package cache

import (
	"sync"

	"github.com/AdguardTeam/golibs/internal/verifrt"
)

// VerifC10Concurrent: goroutines performing arbitrary operations with
// symbolic keys on a shared cache.  Every explored interleaving is checked by
// the happens-before race detector on all fields of the cache, its map, list
// nodes and items; values carry their key and writer so that a Get returning
// another key's or a torn value is visible; every Stats snapshot must respect
// the bounds.
func VerifC10Concurrent() {
	// 2 + 1 operations; quick: at most 2 preemptions, thorough: at most 3
	// (2 + 2 operations, three goroutines or the size-bounded configurations
	// on top of that do not finish within the thorough budget)
	workers, opsEach := 2, 2
	maxCount := [...]uint{1, 2}[verifrt.Choice(2)]
	maxSize := uint(0)
	conf := Config{MaxCount: maxCount, MaxSize: maxSize, EnableLRU: verifrt.Bool2()}
	var delMu sync.Mutex
	deleted := 0
	if conf.EnableLRU && verifrt.Bool2() {
		conf.OnDelete = func(k, v []byte) {
			delMu.Lock()
			deleted++
			delMu.Unlock()
			verifrt.Assert(len(k) == 1 && len(v) == 1 && v[0]>>4 == k[0], "OnDelete received a value that does not belong to the key")
		}
	}
	ch := New(conf)
	var wg sync.WaitGroup
	for w := 0; w < workers; w++ {
		wg.Add(1)
		go func(w int) {
			defer wg.Done()
			n := opsEach
			if w > 0 {
				n = 1 // 2 + 1 operations
			}
			for i := 0; i < n; i++ {
				kb := verifrt.Byte()
				verifrt.Assume(kb < 2)
				key := []byte{kb}
				switch verifrt.Choice(5) {
				case 0:
					ch.Set(key, []byte{kb<<4 | byte(w+1)})
				case 1:
					got := ch.Get(key)
					if got != nil {
						verifrt.Assert(len(got) == 1, "Get returned a torn value")
						verifrt.Assert(got[0]>>4 == kb, "Get returned the value of another key")
						verifrt.Assert(got[0]&0x0f >= 1 && int(got[0]&0x0f) <= workers, "Get returned a value nobody set")
					}
				case 2:
					ch.Del(key)
				case 3:
					ch.Clear()
				default:
					st := ch.Stats()
					verifrt.Assert(maxCount == 0 || uint(st.Count) <= maxCount, "a Stats snapshot exceeds MaxCount")
					verifrt.Assert(maxSize == 0 || uint(st.Size) <= maxSize, "a Stats snapshot exceeds MaxSize")
					verifrt.Assert(st.Count >= 0 && st.Size >= 0 && st.Hit >= 0 && st.Miss >= 0, "negative counters")
				}
			}
		}(w)
	}
	wg.Wait()
	st := ch.Stats()
	verifrt.Assert(maxCount == 0 || uint(st.Count) <= maxCount, "final Count exceeds MaxCount")
	verifrt.Assert(st.Size == 2*st.Count, "final Size is not the summed key+value lengths of live entries")
	// after the concurrent phase the cache must still be a consistent bounded
	// map: Count is the number of retrievable keys, and further insertions
	// (which walk the usage list to evict) keep the accounting exact
	live := 0
	for k := byte(0); k < 2; k++ {
		if got := ch.Get([]byte{k}); got != nil {
			verifrt.Assert(len(got) == 1 && got[0]>>4 == k, "after the concurrent phase Get returns the value of another key")
			live++
		}
	}
	verifrt.Assert(live == st.Count, "after the concurrent phase Count differs from the number of retrievable keys")
	for k := byte(2); k < 5; k++ {
		ch.Set([]byte{k}, []byte{k<<4 | 1})
		got := ch.Get([]byte{k})
		if conf.EnableLRU {
			// (without LRU eviction a full cache refuses new keys)
			verifrt.Assert(got != nil && len(got) == 1 && got[0] == k<<4|1, "after the concurrent phase a freshly set key is not retrievable")
		}
		st = ch.Stats()
		verifrt.Assert(maxCount == 0 || uint(st.Count) <= maxCount, "after the concurrent phase Count exceeds MaxCount")
		verifrt.Assert(maxSize == 0 || uint(st.Size) <= maxSize, "after the concurrent phase Size exceeds MaxSize")
		verifrt.Assert(st.Size == 2*st.Count, "after the concurrent phase Size is not the summed key+value lengths of live entries")
		live = 0
		for j := byte(0); j < 5; j++ {
			if ch.Get([]byte{j}) != nil {
				live++
			}
		}
		verifrt.Assert(live == st.Count, "after the concurrent phase Count differs from the number of retrievable keys")
	}
	verifrt.Cover("done")
}

// VerifC10FullWindow: the concurrent phase starts from a *full* LRU cache
// (MaxCount 2, keys 0 and 1 set sequentially, OnDelete installed), so that the
// very first concurrent Set already has to evict and opens the unlocked
// OnDelete window; one goroutine does one Set (any of three keys: replacing
// the oldest, replacing the newest, or a new key), the other one operation of
// any kind on any key.  Then the same sequential epilogue as
// VerifC10Concurrent: Count/Size exact, every key retrievable, fresh
// insertions keep the accounting.  (In VerifC10Concurrent's 2 + 1 operations a
// full cache with a third Set and a concurrent operation is out of reach.)
func VerifC10FullWindow() {
	const maxCount = 2
	var delMu sync.Mutex
	deleted := 0
	conf := Config{MaxCount: maxCount, EnableLRU: true}
	conf.OnDelete = func(k, v []byte) {
		delMu.Lock()
		deleted++
		delMu.Unlock()
		verifrt.Assert(len(k) == 1 && len(v) == 1 && v[0]>>4 == k[0], "OnDelete received a value that does not belong to the key")
	}
	ch := New(conf)
	ch.Set([]byte{0}, []byte{0<<4 | 1})
	ch.Set([]byte{1}, []byte{1<<4 | 1})
	if verifrt.Bool2() {
		// make key 1 the oldest
		ch.Get([]byte{0})
	}
	var wg sync.WaitGroup
	wg.Add(2)
	go func() {
		defer wg.Done()
		kb := byte(verifrt.Choice(3))
		ch.Set([]byte{kb}, []byte{kb<<4 | 2})
	}()
	go func() {
		defer wg.Done()
		kb := byte(verifrt.Choice(3))
		key := []byte{kb}
		switch verifrt.Choice(4) {
		case 0:
			ch.Set(key, []byte{kb<<4 | 3})
		case 1:
			got := ch.Get(key)
			if got != nil {
				verifrt.Assert(len(got) == 1 && got[0]>>4 == kb, "Get returned the value of another key")
			}
		case 2:
			ch.Del(key)
		default:
			ch.Clear()
		}
	}()
	wg.Wait()
	st := ch.Stats()
	verifrt.Assert(uint(st.Count) <= maxCount, "final Count exceeds MaxCount")
	verifrt.Assert(st.Size == 2*st.Count, "final Size is not the summed key+value lengths of live entries")
	live := 0
	for k := byte(0); k < 3; k++ {
		if got := ch.Get([]byte{k}); got != nil {
			verifrt.Assert(len(got) == 1 && got[0]>>4 == k, "after the concurrent phase Get returns the value of another key")
			live++
		}
	}
	verifrt.Assert(live == st.Count, "after the concurrent phase Count differs from the number of retrievable keys")
	for k := byte(3); k < 6; k++ {
		ch.Set([]byte{k}, []byte{k<<4 | 1})
		got := ch.Get([]byte{k})
		verifrt.Assert(got != nil && len(got) == 1 && got[0] == k<<4|1, "after the concurrent phase a freshly set key is not retrievable")
		st = ch.Stats()
		verifrt.Assert(uint(st.Count) <= maxCount, "after the concurrent phase Count exceeds MaxCount")
		verifrt.Assert(st.Size == 2*st.Count, "after the concurrent phase Size is not the summed key+value lengths of live entries")
		live = 0
		for j := byte(0); j < 6; j++ {
			if ch.Get([]byte{j}) != nil {
				live++
			}
		}
		verifrt.Assert(live == st.Count, "after the concurrent phase Count differs from the number of retrievable keys")
	}
	verifrt.Cover("done")
}
