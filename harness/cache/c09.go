//go:build verif

package cache

import (
	"github.com/AdguardTeam/golibs/internal/verifrt"
)

// ---- abstract LRU model (from the statement, most permissive reading) ----

type c09Ent struct {
	key, val []byte
}

type c09Model struct {
	ents      []c09Ent // least recently used first
	hit, miss int
	deleted   []c09Ent // expected OnDelete calls, in order
}

func c09Eq(a, b []byte) bool {
	if len(a) != len(b) {
		return false
	}
	for i := range a {
		if a[i] != b[i] {
			return false
		}
	}

	return true
}

func (m *c09Model) find(key []byte) int {
	for i := range m.ents {
		if c09Eq(m.ents[i].key, key) {
			return i
		}
	}

	return -1
}

func (m *c09Model) size() (n uint) {
	for _, e := range m.ents {
		n += uint(len(e.key) + len(e.val))
	}

	return n
}

func (m *c09Model) remove(i int) {
	m.ents = append(m.ents[:i:i], m.ents[i+1:]...)
}

type c09Conf struct {
	maxSize, maxElem, maxCount uint
	lru                        bool
}

// set applies Set to the model and returns the expected result.
func (m *c09Model) set(c c09Conf, key, val []byte) (replaced bool) {
	add := uint(len(key) + len(val))
	if c.maxElem != 0 && add > c.maxElem || c.maxSize != 0 && add > c.maxSize {
		return false
	}
	full := func() bool {
		return c.maxSize != 0 && m.size()+add > c.maxSize || c.maxCount != 0 && uint(len(m.ents)) == c.maxCount
	}
	if !c.lru && full() {
		return false // refused, nothing changes
	}
	for c.lru && full() && len(m.ents) > 0 {
		m.deleted = append(m.deleted, m.ents[0])
		m.remove(0)
	}
	if i := m.find(key); i >= 0 {
		m.remove(i)
		replaced = true
	}
	m.ents = append(m.ents, c09Ent{key, val})

	return replaced
}

func (m *c09Model) get(c c09Conf, key []byte) []byte {
	i := m.find(key)
	if i < 0 {
		m.miss++

		return nil
	}
	m.hit++
	e := m.ents[i]
	if c.lru {
		m.remove(i)
		m.ents = append(m.ents, e)
	}

	return e.val
}

func c09Key() []byte {
	n := verifrt.Len(1)
	k := verifrt.Bytes(n)
	for i := range k {
		verifrt.Assume(k[i] < 3)
	}

	return k
}

func c09Val() []byte { return verifrt.Bytes(verifrt.Len(2)) }

// VerifC09History: operation histories through the public API against the
// model, for every configuration of the bounded family.
func VerifC09History() {
	steps := 3
	if verifrt.Thorough() {
		steps = 4
	}
	c := c09Conf{
		maxSize:  [...]uint{0, 2, 4}[verifrt.Choice(3)],
		maxElem:  [...]uint{0, 1, 3}[verifrt.Choice(3)],
		maxCount: [...]uint{0, 1, 2}[verifrt.Choice(3)],
		lru:      verifrt.Bool2(),
	}
	var log []c09Ent
	conf := Config{MaxSize: c.maxSize, MaxElementSize: c.maxElem, MaxCount: c.maxCount, EnableLRU: c.lru}
	if verifrt.Bool2() {
		conf.OnDelete = func(k, v []byte) { log = append(log, c09Ent{k, v}) }
	}
	ch := New(conf)
	m := &c09Model{}
	n := 1 + verifrt.Choice(steps)
	for i := 0; i < n; i++ {
		switch verifrt.Choice(4) {
		case 0:
			k, v := c09Key(), c09Val()
			got := ch.Set(k, v)
			want := m.set(c, k, v)
			verifrt.Assert(got == want, "Set result differs from 'replaced a live entry'")
		case 1:
			k := c09Key()
			got := ch.Get(k)
			want := m.get(c, k)
			verifrt.Assert((got == nil) == (want == nil), "Get presence differs from the model")
			verifrt.Assert(c09Eq(got, want), "Get returns a value other than the latest surviving Set of the key")
		case 2:
			k := c09Key()
			ch.Del(k)
			if j := m.find(k); j >= 0 {
				m.remove(j)
			}
		default:
			ch.Clear()
			m.ents, m.hit, m.miss = nil, 0, 0
		}
		st := ch.Stats()
		verifrt.Assert(st.Count == len(m.ents), "Stats.Count differs from the number of live entries")
		verifrt.Assert(st.Size == int(m.size()), "Stats.Size differs from the summed key+value lengths of live entries")
		verifrt.Assert(c.maxCount == 0 || uint(st.Count) <= c.maxCount, "Count exceeds MaxCount")
		verifrt.Assert(c.maxSize == 0 || uint(st.Size) <= c.maxSize, "Size exceeds MaxSize")
		verifrt.Assert(st.Hit == m.hit && st.Miss == m.miss, "Hit/Miss do not count Gets exactly")
	}
	if conf.OnDelete != nil {
		verifrt.Assert(len(log) == len(m.deleted), "OnDelete was not called exactly once per evicted entry")
		for i := 0; i < len(log) && i < len(m.deleted); i++ {
			verifrt.Assert(c09Eq(log[i].key, m.deleted[i].key) && c09Eq(log[i].val, m.deleted[i].val), "OnDelete order or arguments differ from least-recently-used eviction")
		}
	}
	if len(m.deleted) > 0 {
		verifrt.Cover("evicted")
	}
	verifrt.Cover("done")
}

// VerifC09Order: eviction order on a full LRU cache: MaxCount (2..3, thorough
// ..4) distinct keys are set, then 0..2 (thorough ..3) Gets of arbitrary keys
// and one Del or replacing Set re-order the usage list, then 1..2 fresh keys
// force evictions; every result, Stats and the OnDelete log against the model.
func VerifC09Order() {
	maxK, maxG := 2, 2
	if verifrt.Thorough() {
		maxK, maxG = 3, 3
	}
	k := 2 + verifrt.Choice(maxK)
	c := c09Conf{maxCount: uint(k), lru: true}
	var log []c09Ent
	conf := Config{MaxCount: c.maxCount, EnableLRU: true}
	conf.OnDelete = func(k, v []byte) { log = append(log, c09Ent{k, v}) }
	ch := New(conf)
	m := &c09Model{}
	for i := 0; i < k; i++ {
		key, val := []byte{byte(i)}, []byte{byte(0x10 + i)}
		verifrt.Assert(ch.Set(key, val) == m.set(c, key, val), "Set result differs from 'replaced a live entry'")
	}
	for g := verifrt.Len(maxG); g > 0; g-- {
		kb := verifrt.Byte()
		verifrt.Assume(int(kb) < k)
		key := []byte{kb}
		switch verifrt.Choice(3) {
		case 0:
			got, want := ch.Get(key), m.get(c, key)
			verifrt.Assert(c09Eq(got, want) && (got == nil) == (want == nil), "Get returns a value other than the latest surviving Set of the key")
		case 1:
			val := []byte{0x20 + kb}
			verifrt.Assert(ch.Set(key, val) == m.set(c, key, val), "Set result differs from 'replaced a live entry'")
		default:
			ch.Del(key)
			if j := m.find(key); j >= 0 {
				m.remove(j)
			}
		}
	}
	for f := 1 + verifrt.Choice(2); f > 0; f-- {
		key, val := []byte{byte(0x40 + f)}, []byte{byte(0x50 + f)}
		verifrt.Assert(ch.Set(key, val) == m.set(c, key, val), "Set result differs from 'replaced a live entry'")
		st := ch.Stats()
		verifrt.Assert(st.Count == len(m.ents) && st.Size == int(m.size()), "Stats differ from the live entries of the model")
	}
	for i := 0; i < k; i++ {
		key := []byte{byte(i)}
		got, want := ch.Get(key), m.get(c, key)
		verifrt.Assert((got == nil) == (want == nil), "an entry other than the least recently used one was evicted")
	}
	verifrt.Assert(len(log) == len(m.deleted), "OnDelete was not called exactly once per evicted entry")
	for i := 0; i < len(log) && i < len(m.deleted); i++ {
		verifrt.Assert(c09Eq(log[i].key, m.deleted[i].key) && c09Eq(log[i].val, m.deleted[i].val), "OnDelete order or arguments differ from least-recently-used eviction")
	}
	if len(m.deleted) > 0 {
		verifrt.Cover("evicted")
	}
	verifrt.Cover("done")
}

// c09Op is one re-entrant operation performed from inside OnDelete.
type c09Op struct {
	kind     int
	key, val []byte
}

// setHooked is set with a hook called after each model eviction.
func (m *c09Model) setHooked(c c09Conf, key, val []byte, hook func()) (replaced bool) {
	add := uint(len(key) + len(val))
	if c.maxElem != 0 && add > c.maxElem || c.maxSize != 0 && add > c.maxSize {
		return false
	}
	full := func() bool {
		return c.maxSize != 0 && m.size()+add > c.maxSize || c.maxCount != 0 && uint(len(m.ents)) == c.maxCount
	}
	if !c.lru && full() {
		return false
	}
	for c.lru && full() && len(m.ents) > 0 {
		m.deleted = append(m.deleted, m.ents[0])
		m.remove(0)
		hook()
	}
	if i := m.find(key); i >= 0 {
		m.remove(i)
		replaced = true
	}
	m.ents = append(m.ents, c09Ent{key, val})

	return replaced
}

// VerifC09Reentrant: LRU caches whose OnDelete callback performs one
// arbitrary operation on the cache (calls from inside the callback).
func VerifC09Reentrant() {
	// (three outer Sets do not finish within the thorough budget)
	steps := 2
	c := c09Conf{
		maxSize:  [...]uint{0, 3}[verifrt.Choice(2)],
		maxCount: [...]uint{1, 2}[verifrt.Choice(2)],
		lru:      true,
	}
	var ch Cache
	var log []c09Ent
	var ops []c09Op
	depth := 0
	conf := Config{MaxSize: c.maxSize, MaxCount: c.maxCount, EnableLRU: true}
	conf.OnDelete = func(k, v []byte) {
		log = append(log, c09Ent{k, v})
		if depth > 0 || len(ops) >= 2 {
			// nested evictions only record; at most two re-entrant
			// operations per outer call (a callback that refills the cache on
			// every eviction keeps any cache busy for ever)
			return
		}
		depth++
		op := c09Op{kind: verifrt.Choice(4)}
		switch op.kind {
		case 0:
			op.key, op.val = c09Key(), c09Val()
			ch.Set(op.key, op.val)
		case 1:
			op.key = c09Key()
			ch.Get(op.key)
		case 2:
			op.key = c09Key()
			ch.Del(op.key)
		default:
			st := ch.Stats()
			verifrt.Assert(uint(st.Count) <= c.maxCount, "Count exceeds MaxCount inside OnDelete")
		}
		ops = append(ops, op)
		depth--
	}
	ch = New(conf)
	m := &c09Model{}
	n := 1 + verifrt.Choice(steps)
	for i := 0; i < n; i++ {
		k, v := c09Key(), c09Val()
		ops = ops[:0]
		got := ch.Set(k, v)
		next := 0
		want := m.setHooked(c, k, v, func() {
			if next >= len(ops) {
				return
			}
			op := ops[next]
			next++
			switch op.kind {
			case 0:
				m.set(c, op.key, op.val)
			case 1:
				m.get(c, op.key)
			case 2:
				if j := m.find(op.key); j >= 0 {
					m.remove(j)
				}
			}
		})
		verifrt.Assert(got == want, "Set result differs from the model under a re-entrant callback")
		st := ch.Stats()
		verifrt.Assert(st.Count == len(m.ents), "Stats.Count differs from the model under a re-entrant callback")
		verifrt.Assert(st.Size == int(m.size()), "Stats.Size differs from the model under a re-entrant callback")
		verifrt.Assert(uint(st.Count) <= c.maxCount && (c.maxSize == 0 || uint(st.Size) <= c.maxSize), "bounds exceeded under a re-entrant callback")
		verifrt.Assert(st.Hit == m.hit && st.Miss == m.miss, "Hit/Miss differ under a re-entrant callback")
	}
	verifrt.Assert(len(log) == len(m.deleted), "OnDelete call count differs from the model's evictions")
	for i := 0; i < len(log) && i < len(m.deleted); i++ {
		verifrt.Assert(c09Eq(log[i].key, m.deleted[i].key) && c09Eq(log[i].val, m.deleted[i].val), "OnDelete order or arguments differ from the model")
	}
	if len(log) > 0 {
		verifrt.Cover("callback-ran")
	}
	verifrt.Cover("done")
}
