//go:build verif

package container

import (
	"math"

	"github.com/AdguardTeam/golibs/internal/verifrt"
)

// ---- abstract set: sorted duplicate-free slice ----

type c11Set []int

func (s c11Set) has(v int) bool {
	for _, x := range s {
		if x == v {
			return true
		}
	}

	return false
}

func (s c11Set) add(v int) c11Set {
	if s.has(v) {
		return s
	}
	out := make(c11Set, 0, len(s)+1)
	done := false
	for _, x := range s {
		if !done && v < x {
			out = append(out, v)
			done = true
		}
		out = append(out, x)
	}
	if !done {
		out = append(out, v)
	}

	return out
}

func (s c11Set) del(v int) c11Set {
	out := make(c11Set, 0, len(s))
	for _, x := range s {
		if x != v {
			out = append(out, x)
		}
	}

	return out
}

func c11Val() int {
	b := verifrt.Byte()
	if verifrt.Thorough() {
		verifrt.Assume(b < 4)
	} else {
		verifrt.Assume(b < 3)
	}

	return int(b)
}

// c11Ord returns a value whose order relative to the others is what matters:
// the executor forks over the three values (every order pattern of the short
// histories occurs) instead of asking the solver for every comparison.
func c11Ord() int { return verifrt.Choice(3) }

// c11CheckMapSet compares every observer of set with the model.
func c11CheckMapSet(set *MapSet[int], m c11Set, what string) {
	verifrt.Assert(set.Len() == len(m), what+": Len differs from the model")
	probe := c11Val()
	verifrt.Assert(set.Has(probe) == m.has(probe), what+": Has differs from the model")
	vals := set.Values()
	verifrt.Assert(len(vals) == len(m), what+": Values has a different length than the model")
	for _, v := range vals {
		verifrt.Assert(m.has(v), what+": Values contains an element that is not in the model")
	}
	for i := range vals {
		for j := i + 1; j < len(vals); j++ {
			verifrt.Assert(vals[i] != vals[j], what+": Values contains a duplicate")
		}
	}
	// Range with early termination after stop elements
	stop := verifrt.Len(2)
	n := 0
	set.Range(func(v int) bool {
		verifrt.Assert(m.has(v), what+": Range yields an element that is not in the model")
		n++

		return n <= stop
	})
	want := len(m)
	if stop+1 < want {
		want = stop + 1
	}
	verifrt.Assert(n == want, what+": Range does not stop when the callback returns false (or stops early)")
}

// VerifC11MapSet: histories of MapSet operations against the abstract set;
// a clone and its origin are both continued.
func VerifC11MapSet() {
	// (thorough widens the value range, see c11Val; five operations do not
	// finish within the thorough budget)
	steps := 4
	set := NewMapSet[int]()
	var m c11Set
	var clone *MapSet[int]
	var cm c11Set
	hasClone := false
	steps = 1 + verifrt.Choice(steps)
	for i := 0; i < steps; i++ {
		switch verifrt.Choice(5) {
		case 0:
			v := c11Val()
			set.Add(v)
			m = m.add(v)
		case 1:
			v := c11Val()
			set.Delete(v)
			m = m.del(v)
		case 2:
			set.Clear()
			m = nil
		case 3:
			if !hasClone {
				clone, cm, hasClone = set.Clone(), append(c11Set(nil), m...), true
				verifrt.Assert(clone.Equal(set) && set.Equal(clone), "a fresh clone is not Equal to its origin")
			} else {
				// mutate the clone: must not affect the origin
				v := c11Val()
				clone.Add(v)
				cm = cm.add(v)
			}
		default:
			other := NewMapSet[int]()
			var om c11Set
			for j, k := 0, verifrt.Len(2); j < k; j++ {
				v := c11Val()
				other.Add(v)
				om = om.add(v)
			}
			eq := len(om) == len(m)
			for _, x := range om {
				eq = eq && m.has(x)
			}
			verifrt.Assert(set.Equal(other) == eq, "Equal differs from set equality")
		}
		verifrt.Assert(set.Len() == len(m), "MapSet: Len differs from the model")
	}
	// every observer, of the set and of its clone, at the end of the history
	// (each prefix of a history is itself a history of the family)
	c11CheckMapSet(set, m, "MapSet")
	if hasClone {
		c11CheckMapSet(clone, cm, "MapSet clone")
	}
	// nil receivers behave as documented
	var nilSet *MapSet[int]
	verifrt.Assert(nilSet.Len() == 0 && !nilSet.Has(1) && nilSet.Values() == nil && nilSet.Clone() == nil, "nil MapSet observers")
	verifrt.Assert(nilSet.Equal(nil) && !nilSet.Equal(set) && !set.Equal(nilSet), "nil MapSet Equal")
	nilSet.Clear()
	nilSet.Delete(1)
	nilSet.Range(func(int) bool { return true })
	verifrt.Cover("done")
}

func c11CheckSorted(set *SortedSliceSet[int], m c11Set, what string) {
	verifrt.Assert(set.Len() == len(m), what+": Len differs from the model")
	probe := c11Val()
	verifrt.Assert(set.Has(probe) == m.has(probe), what+": Has differs from the model")
	vals := set.Values()
	verifrt.Assert(len(vals) == len(m), what+": Values has a different length than the model")
	for i := 0; i < len(vals) && i < len(m); i++ {
		verifrt.Assert(vals[i] == m[i], what+": Values is not the ascending sequence of the model")
	}
	stop := [...]int{0, 1 << 20}[verifrt.Choice(2)]
	n := 0
	prev := -1
	set.Range(func(v int) bool {
		verifrt.Assert(v > prev, what+": Range is not strictly ascending")
		prev = v
		n++

		return n <= stop
	})
	want := len(m)
	if stop+1 < want {
		want = stop + 1
	}
	verifrt.Assert(n == want, what+": Range does not stop when the callback returns false (or stops early)")
}

// VerifC11SortedSliceSet: histories against the abstract set.
func VerifC11SortedSliceSet() {
	steps, ninit := 2, 2
	if verifrt.Thorough() {
		steps, ninit = 3, 2
	}
	var init []int
	var m c11Set
	for j, k := 0, verifrt.Len(ninit); j < k; j++ {
		v := c11Ord()
		init = append(init, v)
		m = m.add(v)
	}
	set := NewSortedSliceSet(init...)
	c11CheckSorted(set, m, "SortedSliceSet after New")
	var clone *SortedSliceSet[int]
	var cm c11Set
	hasClone := false
	steps = verifrt.Len(steps)
	for i := 0; i < steps; i++ {
		switch verifrt.Choice(4) {
		case 0:
			v := c11Ord()
			set.Add(v)
			m = m.add(v)
		case 1:
			v := c11Ord()
			set.Delete(v)
			m = m.del(v)
		case 2:
			set.Clear()
			m = nil
		case 3:
			if !hasClone {
				clone, cm, hasClone = set.Clone(), append(c11Set(nil), m...), true
				verifrt.Assert(clone.Equal(set) && set.Equal(clone), "a fresh clone is not Equal to its origin")
			} else {
				v := c11Ord()
				if verifrt.Bool2() {
					clone.Add(v)
					cm = cm.add(v)
				} else {
					clone.Delete(v)
					cm = cm.del(v)
				}
			}
		}
		verifrt.Assert(set.Len() == len(m), "SortedSliceSet: Len differs from the model")
	}
	c11CheckSorted(set, m, "SortedSliceSet")
	if hasClone {
		c11CheckSorted(clone, cm, "SortedSliceSet clone")
	} else {
		// Equal against an independently built set
		var ov []int
		var om c11Set
		for j, k := 0, verifrt.Len(2); j < k; j++ {
			v := c11Ord()
			ov = append(ov, v)
			om = om.add(v)
		}
		other := NewSortedSliceSet(ov...)
		eq := len(om) == len(m)
		for _, x := range om {
			eq = eq && m.has(x)
		}
		verifrt.Assert(set.Equal(other) == eq, "Equal differs from set equality")
	}
	var nilSet *SortedSliceSet[int]
	verifrt.Assert(nilSet.Len() == 0 && !nilSet.Has(1) && nilSet.Values() == nil && nilSet.Clone() == nil, "nil SortedSliceSet observers")
	verifrt.Assert(nilSet.Equal(nil) && !nilSet.Equal(set) && !set.Equal(nilSet), "nil SortedSliceSet Equal")
	nilSet.Clear()
	nilSet.Range(func(int) bool { return true })
	verifrt.Cover("done")
}

// c11CheckRing compares every observer of rb with the model (the retained
// values, oldest first) and with a fresh buffer fed the same values.
func c11CheckRing(rb *RingBuffer[int], capN int, m []int, what string) {
	verifrt.Assert(rb.Len() == uint(len(m)), what+": Len differs from the number of retained values")
	var got []int
	stop := verifrt.Len(2)
	rb.Range(func(v int) bool {
		got = append(got, v)

		return len(got) <= stop
	})
	want := len(m)
	if stop+1 < want {
		want = stop + 1
	}
	verifrt.Assert(len(got) == want, what+": Range yields a wrong number of values")
	for i := range got {
		verifrt.Assert(got[i] == m[i], what+": Range is not oldest first")
	}
	var rev []int
	rstop := verifrt.Len(2)
	rb.ReverseRange(func(v int) bool {
		rev = append(rev, v)

		return len(rev) <= rstop
	})
	rwant := len(m)
	if rstop+1 < rwant {
		rwant = rstop + 1
	}
	verifrt.Assert(len(rev) == rwant, what+": ReverseRange yields a wrong number of values (early stop not honoured?)")
	for i := range rev {
		verifrt.Assert(rev[i] == m[len(m)-1-i], what+": ReverseRange is not newest first")
	}
	cur := rb.Current()
	if capN > 0 && len(m) == capN {
		verifrt.Assert(cur == m[0], what+": Current of a full buffer is not the oldest retained value")
	} else {
		verifrt.Assert(cur == 0, what+": Current of a buffer that is not full is not the zero value")
	}
}

// VerifC11RingBuffer: histories of Push/Clear against the abstract ring.
func VerifC11RingBuffer() {
	maxCap, steps := 3, 5
	if verifrt.Thorough() {
		maxCap, steps = 4, 6
	}
	capN := verifrt.Len(maxCap)
	rb := NewRingBuffer[int](uint(capN))
	var m []int
	c11CheckRing(rb, capN, m, "new RingBuffer")
	n := 1 + verifrt.Choice(steps)
	for i := 0; i < n; i++ {
		if verifrt.Choice(4) == 0 {
			rb.Clear()
			m = nil
			verifrt.Cover("cleared")
		} else {
			v := 1 + int(verifrt.Byte()) // non-zero so that stale values are visible
			rb.Push(v)
			if capN > 0 {
				m = append(m, v)
				if len(m) > capN {
					m = m[1:]
				}
			}
		}
	}
	c11CheckRing(rb, capN, m, "RingBuffer")
	var nilRB *RingBuffer[int]
	verifrt.Assert(nilRB.Current() == 0, "nil RingBuffer Current")
	verifrt.Cover("done")
}

// VerifC11SortedNew: the constructor on 0..4 (thorough 0..5) arbitrary
// elements in arbitrary order (duplicates anywhere), then one Delete.
func VerifC11SortedNew() {
	ninit := 4
	if verifrt.Thorough() {
		ninit = 5
	}
	var init []int
	var m c11Set
	for j, k := 0, verifrt.Len(ninit); j < k; j++ {
		v := verifrt.Choice(4)
		init = append(init, v)
		m = m.add(v)
	}
	set := NewSortedSliceSet(init...)
	c11CheckSorted(set, m, "SortedSliceSet after New")
	v := verifrt.Choice(4)
	set.Delete(v)
	m = m.del(v)
	verifrt.Assert(!set.Has(v), "SortedSliceSet: Has(v) after Delete(v)")
	c11CheckSorted(set, m, "SortedSliceSet after New and Delete")
	verifrt.Cover("done")
}

// VerifC11CloneIndependent: a clone taken from a set in an arbitrary
// reachable storage state (built from 0..2 elements, then optionally emptied
// or shrunk by Clear / Delete, which keep the backing array) stays
// independent of its origin: one mutation of the clone and one of the origin,
// in either order, and each is compared with its own model.  Directed at
// aliasing between the two (a history of Clear, Clone, Add, Add is longer than
// the histories VerifC11SortedSliceSet explores in the quick tier).
func VerifC11CloneIndependent() {
	var init []int
	var m c11Set
	for j, k := 0, verifrt.Len(2); j < k; j++ {
		v := c11Ord()
		init = append(init, v)
		m = m.add(v)
	}
	set := NewSortedSliceSet(init...)
	switch verifrt.Choice(3) {
	case 0:
	case 1:
		set.Clear()
		m = nil
	case 2:
		v := c11Ord()
		set.Delete(v)
		m = m.del(v)
	}
	clone := set.Clone()
	cm := append(c11Set(nil), m...)
	verifrt.Assert(clone.Equal(set) && set.Equal(clone), "a fresh clone is not Equal to its origin")
	mut := func(s *SortedSliceSet[int], mm c11Set) c11Set {
		v := c11Ord()
		if verifrt.Bool2() {
			s.Add(v)

			return mm.add(v)
		}
		s.Delete(v)

		return mm.del(v)
	}
	if verifrt.Bool2() {
		cm = mut(clone, cm)
		m = mut(set, m)
	} else {
		m = mut(set, m)
		cm = mut(clone, cm)
	}
	c11CheckSorted(set, m, "origin after mutating origin and clone")
	c11CheckSorted(clone, cm, "clone after mutating origin and clone")
	verifrt.Cover("done")
}

// VerifC11MapSetNaN: a MapSet of float64 holding a NaN (a key that is not
// equal to itself): Clear still empties the set, Delete cannot remove it.
func VerifC11MapSetNaN() {
	nan := math.NaN()
	set := NewMapSet(1.5, nan, 2.5)
	verifrt.Assert(set.Len() == 3, "MapSet[float64] with a NaN: Len")
	if verifrt.Bool2() {
		set.Add(nan) // every NaN is a new element
		verifrt.Assert(set.Len() == 4, "MapSet[float64]: a second NaN is a new element")
	}
	set.Clear()
	verifrt.Assert(set.Len() == 0 && len(set.Values()) == 0, "MapSet[float64] with a NaN is not empty after Clear")
	n := 0
	set.Range(func(float64) bool { n++; return true })
	verifrt.Assert(n == 0, "MapSet[float64] with a NaN: Range yields elements after Clear")
	verifrt.Assert(set.Equal(NewMapSet[float64]()), "MapSet[float64] with a NaN: a cleared set is not Equal to a new one")
	verifrt.Cover("done")
}
