//go:build verif

package service

import (
	"context"
	"errors"
	"os"
	"sync"
	"sync/atomic"
	"syscall"
	"time"

	"github.com/AdguardTeam/golibs/internal/verifrt"
	"github.com/AdguardTeam/golibs/osutil"
)

// ---- SignalHandler ----

type c18Notifier struct{ ch chan<- os.Signal }

func (n *c18Notifier) Notify(c chan<- os.Signal, _ ...os.Signal) { n.ch = c }
func (n *c18Notifier) Stop(chan<- os.Signal)                     {}

var errC18 = errors.New("c18 shutdown error")

type c18Svc struct {
	idx     int
	outcome int // 0 nil, 1 error, 2 panic
	log     *[]int
}

func (s *c18Svc) Start(context.Context) error { return nil }
func (s *c18Svc) Shutdown(context.Context) error {
	*s.log = append(*s.log, s.idx)
	switch s.outcome {
	case 1:
		return errC18
	case 2:
		panic("c18 shutdown panic")
	}

	return nil
}

func c18IsShutdown(sig syscall.Signal) bool {
	return sig == syscall.SIGINT || sig == syscall.SIGQUIT || sig == syscall.SIGTERM
}

// VerifC18Signals: n services with arbitrary Shutdown outcomes, an arbitrary
// signal sequence ending with a shutdown signal.
func VerifC18Signals() {
	maxSvc, maxSig := 3, 2
	if verifrt.Thorough() {
		maxSvc, maxSig = 4, 3
	}
	nt := &c18Notifier{}
	h := NewSignalHandler(&SignalHandlerConfig{SignalNotifier: nt, ShutdownTimeout: time.Second})
	verifrt.Assert(nt.ch != nil, "the handler did not subscribe to signals")
	var log []int
	n := verifrt.Len(maxSvc)
	outcomes := make([]int, n)
	reuse := verifrt.Bool2()
	buf := make([]Interface, 0, 2)
	anyPanic, allNil := false, true
	for i := 0; i < n; i++ {
		outcomes[i] = verifrt.Choice(3)
		if outcomes[i] == 2 {
			anyPanic = true
		}
		if outcomes[i] != 0 {
			allNil = false
		}
		svc := &c18Svc{idx: i, outcome: outcomes[i], log: &log}
		if reuse {
			// registered through a slice the caller keeps and overwrites for
			// the next registration (Add must not retain its argument slice)
			buf = append(buf[:0], svc)
			h.Add(buf...)
		} else {
			h.Add(svc)
		}
	}
	// signals: k non-shutdown ones, then the first shutdown signal
	k := verifrt.Len(maxSig)
	var beforeShutdown int32
	go func() {
		for i := 0; i < k; i++ {
			b := verifrt.Byte()
			sig := syscall.Signal(b)
			verifrt.Assume(!c18IsShutdown(sig))
			nt.ch <- sig
		}
		atomic.StoreInt32(&beforeShutdown, int32(len(log)))
		b := verifrt.Byte()
		sig := syscall.Signal(b)
		verifrt.Assume(c18IsShutdown(sig))
		nt.ch <- sig
	}()
	// the context given to Handle may already be done (cancelled with the real
	// context package): every service is still shut down, once, in order
	ctx := context.Background()
	if verifrt.Bool2() {
		cctx, cancel := context.WithCancelCause(ctx)
		cancel(nil)
		ctx = cctx
	}
	status := h.Handle(ctx)
	verifrt.Assert(atomic.LoadInt32(&beforeShutdown) == 0, "Shutdown was called before a shutdown signal arrived")
	// expected calls: reverse registration order, once each, stopping only
	// at a panicking service
	want := []int{}
	for i := n - 1; i >= 0; i-- {
		want = append(want, i)
		if outcomes[i] == 2 {
			break
		}
	}
	if !anyPanic {
		verifrt.Assert(len(log) == n, "not every registered service was shut down exactly once")
	}
	verifrt.Assert(len(log) == len(want), "number of Shutdown calls differs from reverse-order shutdown")
	for i := 0; i < len(log) && i < len(want); i++ {
		verifrt.Assert(log[i] == want[i], "services were not shut down in reverse registration order")
	}
	if allNil {
		verifrt.Assert(status == osutil.ExitCodeSuccess, "all services shut down cleanly but the status is not success")
	} else {
		verifrt.Assert(status != osutil.ExitCodeSuccess, "ExitCodeSuccess although a Shutdown failed, panicked or was skipped")
	}
	if anyPanic {
		verifrt.Cover("panic")
	}
	verifrt.Cover("done")
}

// ---- RefreshWorker ----

type c18Clock struct {
	ch      chan time.Time
	after   []time.Duration
	mu      sync.Mutex
}

func (c *c18Clock) Now() time.Time { return time.Time{} }
func (c *c18Clock) After(d time.Duration) <-chan time.Time {
	c.mu.Lock()
	c.after = append(c.after, d)
	c.mu.Unlock()

	return c.ch
}

type c18Sched struct {
	mu   sync.Mutex
	durs []time.Duration
}

func (s *c18Sched) UntilNext(time.Time) time.Duration {
	d := time.Duration(verifrt.Int64())
	s.mu.Lock()
	s.durs = append(s.durs, d)
	s.mu.Unlock()

	return d
}

// c18TagCtx marks contexts produced by the constructor.
type c18TagCtx struct{ context.Context }

type c18Cons struct{ news, cancels int32 }

func (c *c18Cons) New(parent context.Context) (context.Context, context.CancelFunc) {
	atomic.AddInt32(&c.news, 1)

	return &c18TagCtx{parent}, func() { atomic.AddInt32(&c.cancels, 1) }
}

var errC18Refresh = errors.New("c18 refresh error")

// VerifC18Refresh: a driver issues ticks and a shutdown under an injected
// clock; all interleavings with the worker goroutine.
func VerifC18Refresh() {
	maxEvents := 2
	if verifrt.Thorough() {
		maxEvents = 4
	}
	clk := &c18Clock{ch: make(chan time.Time, 1)}
	sch := &c18Sched{}
	cons := &c18Cons{}
	var mu sync.Mutex
	var refreshErrs []error // outcome of every Refresh, in order
	var handled []error
	var shutdownReturned, lateRefresh, badCtx int32
	onShutdown := verifrt.Bool2()
	var finalAllowed int32
	w := NewRefreshWorker(&RefreshWorkerConfig{
		Clock:              clk,
		ContextConstructor: cons,
		Schedule:           sch,
		RefreshOnShutdown:  onShutdown,
		ErrorHandler: ErrorHandlerFunc(func(_ context.Context, err error) {
			mu.Lock()
			handled = append(handled, err)
			mu.Unlock()
		}),
		Refresher: RefresherFunc(func(ctx context.Context) error {
			if _, ok := ctx.(*c18TagCtx); !ok {
				atomic.StoreInt32(&badCtx, 1)
			}
			if atomic.LoadInt32(&shutdownReturned) == 1 {
				atomic.StoreInt32(&lateRefresh, 1)
			}
			var err error
			if verifrt.Bool2() {
				err = errC18Refresh
			}
			verifrt.Yield()
			mu.Lock()
			refreshErrs = append(refreshErrs, err)
			mu.Unlock()

			return err
		}),
	})
	verifrt.Assert(w.Start(context.Background()) == nil, "Start failed")
	ticks := verifrt.Len(maxEvents)
	for i := 0; i < ticks; i++ {
		clk.ch <- time.Time{}
	}
	mu.Lock()
	before := len(refreshErrs)
	mu.Unlock()
	// Shutdown does not wait for the loop goroutine: a tick that has elapsed
	// but whose refresh has not completed yet when Shutdown is called can
	// still be refreshed after Shutdown has returned
	verifrt.Known("C18-refresh-after-shutdown-pending-tick", ticks > before)
	_ = finalAllowed
	err := w.Shutdown(context.Background())
	atomic.StoreInt32(&shutdownReturned, 1)
	verifrt.Quiesce()
	// an interval that elapses after Shutdown has returned and the worker has
	// come to rest must not be refreshed either
	mu.Lock()
	rested := len(refreshErrs)
	mu.Unlock()
	if verifrt.Bool2() {
		select {
		case clk.ch <- time.Time{}:
		default:
		}
		verifrt.Quiesce()
		mu.Lock()
		verifrt.Assert(len(refreshErrs) == rested, "an interval that elapsed after Shutdown had returned was refreshed (the loop was not stopped)")
		mu.Unlock()
	}
	mu.Lock()
	all := append([]error(nil), refreshErrs...)
	hs := append([]error(nil), handled...)
	mu.Unlock()
	verifrt.Assert(atomic.LoadInt32(&badCtx) == 0, "Refresh was called with a context that does not come from the constructor")
	verifrt.Assert(atomic.LoadInt32(&lateRefresh) == 0, "a Refresh started after Shutdown had returned")
	verifrt.Assert(len(all) <= ticks+1, "more refreshes than elapsed intervals (plus the final one)")
	if onShutdown {
		verifrt.Assert(len(all) >= before+1, "RefreshOnShutdown is set but Shutdown did not refresh")
	}
	// errors of loop refreshes go to the handler, exactly once, in order;
	// the final refresh's error is returned by Shutdown instead
	loopErrs := 0
	for _, e := range all {
		if e != nil {
			loopErrs++
		}
	}
	if err != nil {
		verifrt.Assert(onShutdown && errors.Is(err, errC18Refresh), "Shutdown returned an error that is not the final refresh's")
		loopErrs--
	}
	verifrt.Assert(len(hs) == loopErrs, "a Refresh error was not handed to the ErrorHandler exactly once")
	for _, e := range hs {
		verifrt.Assert(e == errC18Refresh, "the ErrorHandler received something else than the Refresh error")
	}
	// After is always called with the value UntilNext returned last
	clk.mu.Lock()
	sch.mu.Lock()
	for i, d := range clk.after {
		verifrt.Assert(i < len(sch.durs) && d == sch.durs[i], "After was not called with the delay the schedule returned last")
	}
	sch.mu.Unlock()
	clk.mu.Unlock()
	verifrt.Assert(atomic.LoadInt32(&cons.news) >= int32(len(all)), "a Refresh ran without a constructed context")
	if len(all) > 0 {
		verifrt.Cover("refreshed")
	}
	verifrt.Cover("done")
}
