//go:build verif

package timeutil

import (
	"time"

	"github.com/AdguardTeam/golibs/internal/verifrt"
)

// c14RefString is the statement's definition: time.Duration's text with a
// redundant trailing "0s" (after non-zero minutes) or "0m0s" (after hours)
// removed.
func c14RefString(d time.Duration) string {
	s := d.String()
	n := len(s)
	switch {
	case n > 4 && s[n-4:] == "0m0s" && (s[n-5] < '0' || s[n-5] > '9'):
		return s[:n-4]
	case n > 2 && s[n-2:] == "0s" && (s[n-3] < '0' || s[n-3] > '9'):
		return s[:n-2]
	}

	return s
}

// VerifC14Duration: d = sign * (h hours + m minutes + s seconds + frac) where
// one component is an arbitrary byte-sized value and the others range over
// boundary constants.  Every term then depends on one input byte, so the
// 64-bit divisions of the formatting code are decided exactly by the
// executor's value tables instead of a bit-vector query no solver finishes.
func VerifC14Duration() {
	sym := verifrt.Choice(4)
	part := func(idx int, consts []int64, max byte) int64 {
		if idx == sym {
			b := verifrt.Byte()
			verifrt.Assume(b <= max)

			return int64(b)
		}

		return consts[verifrt.Choice(len(consts))]
	}
	h := part(0, []int64{0, 1, 100}, 255)
	m := part(1, []int64{0, 1, 59}, 59)
	s := part(2, []int64{0, 1, 59}, 59)
	f := part(3, []int64{0, 1, 500000000}, 255)
	d := time.Duration(h)*time.Hour + time.Duration(m)*time.Minute + time.Duration(s)*time.Second + time.Duration(f)
	if verifrt.Bool2() {
		d = -d
	}
	dur := Duration(d)
	got := dur.String()
	verifrt.ObserveString("text", got)
	verifrt.Assert(got == c14RefString(d), "Duration.String is not time.Duration's text with the redundant zero units removed")
	text, err := dur.MarshalText()
	verifrt.Assert(err == nil && string(text) == got, "MarshalText differs from String")
	if f == 0 {
		// (a fractional part would go through time.ParseDuration's
		// floating-point arithmetic with a symbolic operand, which the
		// executor does not model; the edge harness covers fractions
		// concretely)
		var back Duration
		uerr := back.UnmarshalText(text)
		verifrt.Assert(uerr == nil, "UnmarshalText rejects the text of a Duration")
		verifrt.Assert(back == dur, "UnmarshalText(MarshalText(d)) != d")
		verifrt.Cover("round-trip")
	}
	verifrt.Cover("done")
}

// VerifC14DurationEdges: the extreme values, concretely.
func VerifC14DurationEdges() {
	d := [...]time.Duration{0, 1, -1, 1<<63 - 1, -1 << 63, time.Hour, -time.Minute, 90 * time.Minute, -90 * time.Minute, 999999999, time.Second + 1}[verifrt.Choice(11)]
	dur := Duration(d)
	got := dur.String()
	verifrt.Assert(got == c14RefString(d), "Duration.String is not time.Duration's text with the redundant zero units removed")
	text, _ := dur.MarshalText()
	var back Duration
	verifrt.Assert(back.UnmarshalText(text) == nil && back == dur, "UnmarshalText(MarshalText(d)) != d")
	verifrt.Cover("done")
}
