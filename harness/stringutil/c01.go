//go:build verif

package stringutil

import (
	"strings"

	"github.com/AdguardTeam/golibs/internal/verifrt"
)

// VerifC01Strings: stringutil functions on arbitrary byte strings.
func VerifC01Strings() {
	switch verifrt.Choice(4) {
	case 0:
		ns, nsub := 4, 2
		if verifrt.Thorough() {
			ns, nsub = 5, 3
		}
		s := verifrt.String(verifrt.Len(ns))
		sub := verifrt.String(verifrt.Len(nsub))
		if !verifrt.Thorough() {
			// quick: 7-bit bytes; the Unicode case tables are exercised in
			// the thorough tier (and by C13)
			for i := 0; i < len(s); i++ {
				verifrt.Assume(s[i] < 0x80)
			}
			for i := 0; i < len(sub); i++ {
				verifrt.Assume(sub[i] < 0x80)
			}
		}
		ContainsFold(s, sub)
	case 1:
		n := 4
		if verifrt.Thorough() {
			n = 6
		}
		str, sep := verifrt.String(verifrt.Len(n)), verifrt.String(verifrt.Len(2))
		if !verifrt.Thorough() {
			for i := 0; i < len(str); i++ {
				verifrt.Assume(str[i] < 0x80)
			}
			for i := 0; i < len(sep); i++ {
				verifrt.Assume(sep[i] < 0x80)
			}
		}
		SplitTrimmed(str, sep)
	case 2:
		strs := []string{verifrt.String(verifrt.Len(1)), verifrt.String(verifrt.Len(1))}
		c := CloneSliceOrEmpty(strs[:verifrt.Len(2)])
		verifrt.Assert(c != nil, "CloneSliceOrEmpty returned nil")
		_ = CloneSliceOrEmpty(nil)
		_ = FilterOut(strs, func(s string) bool { return s == "" })
		_ = FilterOut(nil, func(s string) bool { return true })
	default:
		b := &strings.Builder{}
		WriteToBuilder(b, verifrt.String(verifrt.Len(2)), "", verifrt.String(verifrt.Len(1)))
		WriteToBuilder(b)
		_ = b.String()
	}
	verifrt.Cover("returned")
}
