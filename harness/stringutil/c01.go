//go:build verif

package stringutil

import (
	"strings"

	"github.com/AdguardTeam/golibs/internal/verifrt"
)

// VerifC01Strings: stringutil functions on arbitrary byte strings.
func VerifC01Strings() {
	switch verifrt.Choice(4) {
	case 0:
		ns, nsub := 4, 2
		if verifrt.Thorough() {
			ns = 5
		}
		s := verifrt.String(verifrt.Len(ns))
		sub := verifrt.String(verifrt.Len(nsub))
		// 7-bit bytes: a symbolic non-ASCII byte takes utf8.DecodeRune and the
		// fold tables through every table entry and does not finish (C13
		// covers the fold orbits with concrete runes)
		c01ASCIIBut(s)
		c01ASCIIBut(sub)
		ContainsFold(s, sub)
	case 1:
		n := 4
		if verifrt.Thorough() {
			n = 5
		}
		str, sep := verifrt.String(verifrt.Len(n)), verifrt.String(verifrt.Len(2))
		c01ASCIIBut(str)
		c01ASCIIBut(sep)
		SplitTrimmed(str, sep)
	case 2:
		strs := []string{verifrt.String(verifrt.Len(1)), verifrt.String(verifrt.Len(1))}
		c := CloneSliceOrEmpty(strs[:verifrt.Len(2)])
		verifrt.Assert(c != nil, "CloneSliceOrEmpty returned nil")
		_ = CloneSliceOrEmpty(nil)
		_ = FilterOut(strs, func(s string) bool { return s == "" })
		_ = FilterOut(nil, func(s string) bool { return true })
	default:
		b := &strings.Builder{}
		WriteToBuilder(b, verifrt.String(verifrt.Len(2)), "", verifrt.String(verifrt.Len(1)))
		WriteToBuilder(b)
		_ = b.String()
	}
	verifrt.Cover("returned")
}

// c01ASCIIBut assumes that s is 7-bit.
func c01ASCIIBut(s string) {
	for i := 0; i < len(s); i++ {
		verifrt.Assume(s[i] < 0x80)
	}
}
