//go:build verif

package stringutil

import (
	"strings"
	"unicode/utf8"

	"github.com/AdguardTeam/golibs/internal/verifrt"
)

// c13RefFold is the definition in the statement: a substring of the same
// byte length as sub, starting at a rune boundary, equal to sub under simple
// case folding.
func c13RefFold(s, sub string) bool {
	for i := 0; i+len(sub) <= len(s); i++ {
		if i < len(s) && !utf8.RuneStart(s[i]) {
			continue
		}
		if strings.EqualFold(s[i:i+len(sub)], sub) {
			return true
		}
	}

	return false
}

func c13ASCII(s string) {
	for i := 0; i < len(s); i++ {
		verifrt.Assume(s[i] < 0x80)
	}
}

// VerifC13FoldASCII: all ASCII operands up to the bound.
func VerifC13FoldASCII() {
	ns, nsub := 4, 2
	if verifrt.Thorough() {
		ns, nsub = 5, 2
	}
	s := verifrt.String(verifrt.Len(ns))
	sub := verifrt.String(verifrt.Len(nsub))
	c13ASCII(s)
	c13ASCII(sub)
	got := ContainsFold(s, sub)
	want := c13RefFold(s, sub)
	verifrt.ObserveBool("got", got)
	verifrt.Assert(got == want, "ContainsFold differs from the fold-equal-substring definition")
	verifrt.Assert(want == strings.Contains(strings.ToLower(s), strings.ToLower(sub)), "reference definitions disagree on ASCII operands")
	if got {
		verifrt.Cover("contains")
	} else {
		verifrt.Cover("does-not-contain")
	}
}

// c13ValidUTF8 assumes s is valid UTF-8 without U+FFFD and with at most one
// multi-byte rune.
func c13ValidUTF8(s string) {
	multi := 0
	for i := 0; i < len(s); {
		r, size := utf8.DecodeRuneInString(s[i:])
		verifrt.Assume(r != utf8.RuneError)
		if size > 1 {
			multi++
		}
		i += size
	}
	verifrt.Assume(multi <= 1)
}

// VerifC13FoldUnicode: valid UTF-8 operands with at most one multi-byte rune
// each (fold orbits such as k/K/Kelvin sign, s/S/long s at every position).
func VerifC13FoldUnicode() {
	ns, nsub := 3, 2
	if verifrt.Thorough() {
		ns, nsub = 4, 3
	}
	s := verifrt.String(verifrt.Len(ns))
	sub := verifrt.String(verifrt.Len(nsub))
	c13ValidUTF8(s)
	c13ValidUTF8(sub)
	got := ContainsFold(s, sub)
	want := c13RefFold(s, sub)
	verifrt.ObserveBool("got", got)
	verifrt.Assert(got == want, "ContainsFold differs from the fold-equal-substring definition")
	if got {
		verifrt.Cover("contains")
	} else {
		verifrt.Cover("does-not-contain")
	}
}

// c13RefSplit: the non-empty whitespace-trimmed pieces of
// strings.Split(strings.TrimSpace(s), sep), never nil.
func c13RefSplit(s, sep string) []string {
	out := []string{}
	s = strings.TrimSpace(s)
	if s == "" {
		return out
	}
	for _, p := range strings.Split(s, sep) {
		if p = strings.TrimSpace(p); p != "" {
			out = append(out, p)
		}
	}

	return out
}

// VerifC13Split: SplitTrimmed against the reference.
func VerifC13Split() {
	ns := 5
	if verifrt.Thorough() {
		ns = 7
	}
	s := verifrt.String(verifrt.Len(ns))
	minSep := 1
	if verifrt.Thorough() {
		minSep = 0
	}
	sep := verifrt.String(minSep + verifrt.Len(2-minSep))
	c13ASCII(s)
	c13ASCII(sep)
	want := c13RefSplit(s, sep)
	got := SplitTrimmed(s, sep)
	verifrt.ObserveInt("pieces", int64(len(got)))
	verifrt.Assert(got != nil, "SplitTrimmed returned nil")
	verifrt.Assert(len(got) == len(want), "SplitTrimmed returns a different number of pieces")
	for i := 0; i < len(got) && i < len(want); i++ {
		verifrt.Assert(got[i] == want[i], "SplitTrimmed returns a different piece")
	}
	if len(got) == 0 {
		verifrt.Cover("empty")
	} else {
		verifrt.Cover("pieces")
	}
}

// VerifC13FoldOrbits: for every letter whose simple-fold orbit has three or
// more members (k/K/Kelvin sign, s/S/long s, the Greek theta, iota, sigma ...
// families; the list c13Orbits is generated from the unicode tables at run
// time) and every ordered pair (x, y) of one orbit: s = ASCII byte ++ x ++
// optional ASCII byte, sub = y ++ optional ASCII byte, so that the match is
// away from offset 0; and every quadruple: s = ASCII byte ++ x ++ x2 ++
// optional ASCII byte, sub = y ++ y2 (members of different UTF-8 widths in
// windows of equal byte length).
func VerifC13FoldOrbits() {
	orbit := c13Orbits[verifrt.Choice(len(c13Orbits))]
	x := orbit[verifrt.Choice(len(orbit))]
	y := orbit[verifrt.Choice(len(orbit))]
	a := verifrt.Byte()
	verifrt.Assume(a < 0x80)
	s := string([]byte{a}) + string(x)
	sub := string(y)
	switch verifrt.Choice(3) {
	case 1:
		// two runes of the orbit on each side: windows of equal byte length
		// whose runes differ in width position by position
		x2 := orbit[verifrt.Choice(len(orbit))]
		y2 := orbit[verifrt.Choice(len(orbit))]
		s += string(x2)
		sub += string(y2)
		if verifrt.Bool2() {
			c := verifrt.Byte()
			verifrt.Assume(c < 0x80)
			s += string([]byte{c})
		}
	case 2:
		c := verifrt.Byte()
		verifrt.Assume(c < 0x80)
		s += string([]byte{c})
		d := verifrt.Byte()
		verifrt.Assume(d < 0x80)
		sub += string([]byte{d})
	}
	got := ContainsFold(s, sub)
	want := c13RefFold(s, sub)
	verifrt.ObserveBool("got", got)
	verifrt.Assert(got == want, "ContainsFold differs from the fold-equal-substring definition on a multi-member fold orbit")
	if got {
		verifrt.Cover("contains")
	} else {
		verifrt.Cover("does-not-contain")
	}
}
