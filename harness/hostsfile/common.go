//go:build verif

package hostsfile

import "github.com/AdguardTeam/golibs/internal/verifrt"

func verifAssumeASCIIBytes(b []byte) {
	for i := 0; i < len(b); i++ {
		verifrt.Assume(b[i] < 0x80)
	}
}

// verifAssumeNoACEBytes excludes "xn--" at the start of a name label (after
// a separator or a dot).
func verifAssumeNoACEBytes(s []byte) {
	for i := 0; i+3 < len(s); i++ {
		if s[i] == 'x' && s[i+1] == 'n' && s[i+2] == '-' && s[i+3] == '-' &&
			(i == 0 || s[i-1] == '.' || s[i-1] == ' ' || s[i-1] == '\t') {
			verifrt.Assume(false)
		}
	}
}

// ---- reference field splitter from the hosts(5) grammar of the statement (shared by C07 and C08) ----

// c07Fields cuts the comment and splits on spaces and tabs.
func c07Fields(line []byte) (fields []string) {
	end := len(line)
	for i := 0; i < len(line); i++ {
		if line[i] == '#' {
			end = i

			break
		}
	}
	lo := -1
	for i := 0; i <= end; i++ {
		sep := i == end || line[i] == ' ' || line[i] == '\t'
		switch {
		case !sep && lo < 0:
			lo = i
		case sep && lo >= 0:
			fields = append(fields, string(line[lo:i]))
			lo = -1
		}
	}

	return fields
}

func c07EqNames(got []string, want []string) bool {
	if len(got) != len(want) {
		return false
	}
	for i := range got {
		if got[i] != want[i] {
			return false
		}
	}

	return true
}

