//go:build verif

package hostsfile

import "github.com/AdguardTeam/golibs/internal/verifrt"

func verifAssumeASCIIBytes(b []byte) {
	for i := 0; i < len(b); i++ {
		verifrt.Assume(b[i] < 0x80)
	}
}

// verifAssumeNoACEBytes excludes "xn--" at the start of a name label (after
// a separator or a dot).
func verifAssumeNoACEBytes(s []byte) {
	for i := 0; i+3 < len(s); i++ {
		if s[i] == 'x' && s[i+1] == 'n' && s[i+2] == '-' && s[i+3] == '-' &&
			(i == 0 || s[i-1] == '.' || s[i-1] == ' ' || s[i-1] == '\t') {
			verifrt.Assume(false)
		}
	}
}
