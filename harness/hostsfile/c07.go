//go:build verif

package hostsfile

import (
	"errors"
	"net/netip"

	"github.com/AdguardTeam/golibs/internal/verifrt"
	"github.com/AdguardTeam/golibs/netutil"
)

// ---- reference from the statement ----

// c07Check runs UnmarshalText on line and compares with the reference.
// It returns the record when the line was accepted.
func c07Check(line []byte) (rec *Record, accepted bool) {
	orig := append([]byte(nil), line...)
	rec = &Record{}
	err := rec.UnmarshalText(line)
	for i := range orig {
		verifrt.Assert(line[i] == orig[i], "UnmarshalText modified its input")
	}
	fields := c07Fields(orig)
	verifrt.ObserveBool("accepted", err == nil)
	verifrt.ObserveInt("fields", int64(len(fields)))
	switch {
	case len(fields) == 0:
		verifrt.Assert(errors.Is(err, ErrEmptyLine), "a line without fields must be ErrEmptyLine")
		verifrt.Cover("empty")

		return rec, false
	case len(fields) == 1:
		verifrt.Assert(errors.Is(err, ErrNoHosts), "a line with one field must be ErrNoHosts")
		verifrt.Cover("no-hosts")

		return rec, false
	}
	addr, aerr := netip.ParseAddr(fields[0])
	if aerr != nil {
		verifrt.Assert(err != nil, "a line whose first field is not an address was accepted")
		var ae *netutil.AddrError
		verifrt.Assert(!errors.Is(err, ErrEmptyLine) && !errors.Is(err, ErrNoHosts) && !errors.As(err, &ae),
			"a bad address must be reported as the address parse error")
		verifrt.Cover("bad-addr")

		return rec, false
	}
	verifrt.Assert(rec.Addr == addr, "record address differs from netip.ParseAddr of the first field")
	names := fields[1:]
	for i, n := range names {
		if netutil.ValidateDomainName(n) != nil {
			var ae *netutil.AddrError
			verifrt.Assert(err != nil && errors.As(err, &ae), "the first bad name must be reported as an *AddrError")
			verifrt.Assert(c07EqNames(rec.Names, names[:i]), "only the names before the first bad one must be retained")
			verifrt.Cover("bad-name")

			return rec, false
		}
	}
	verifrt.Assert(err == nil, "a well-formed line was rejected")
	verifrt.Assert(c07EqNames(rec.Names, names), "record names differ from the fields of the line")
	verifrt.Cover("accepted")

	return rec, true
}

// c07RoundTrip: MarshalText of an accepted record re-parses to an equal record.
func c07RoundTrip(rec *Record) {
	data, err := rec.MarshalText()
	verifrt.Assert(err == nil, "MarshalText failed")
	back := &Record{}
	err = back.UnmarshalText(data)
	verifrt.Assert(err == nil, "MarshalText output of an accepted record does not parse")
	verifrt.Assert(back.Addr == rec.Addr, "round trip changes the address")
	verifrt.Assert(c07EqNames(back.Names, rec.Names), "round trip changes the names")
}

// VerifC07Free: every ASCII line up to the bound.
func VerifC07Free() {
	max := 6
	if verifrt.Thorough() {
		max = 7
	}
	line := verifrt.Bytes(verifrt.Len(max))
	verifAssumeASCIIBytes(line)
	verifAssumeNoACEBytes(line)
	rec, ok := c07Check(line)
	if ok {
		c07RoundTrip(rec)
	}
}

func c07WS(b []byte, min int) []byte {
	n := min + verifrt.Choice(2)
	for i := 0; i < n; i++ {
		c := verifrt.Byte()
		verifrt.Assume(c == ' ' || c == '\t')
		b = append(b, c)
	}

	return b
}

func c07Free(b []byte, max int, noSep bool) []byte {
	n := 1 + verifrt.Choice(max)
	for i := 0; i < n; i++ {
		c := verifrt.Byte()
		if noSep {
			verifrt.Assume(c < 0x80 && c != 'x' && c != ' ' && c != '\t' && c != '#')
		} else {
			verifrt.Assume(c < 0x80 && c != 'x')
		}
		b = append(b, c)
	}

	return b
}

// VerifC07Shapes: ws* addr ws+ name (ws+ name){0..2} ws* ('#' any*)?
func VerifC07Shapes() {
	var b []byte
	b = c07WS(b, 0)
	// address: one of a few concrete skeletons with symbolic digits, or a
	// short arbitrary field
	switch verifrt.Choice(4) {
	case 0:
		for k := 0; k < 4; k++ {
			if k > 0 {
				b = append(b, '.')
			}
			d := verifrt.Byte()
			verifrt.Assume(d >= '0' && d <= '9')
			b = append(b, d)
		}
	case 1:
		b = append(b, ':', ':')
		d := verifrt.Byte()
		verifrt.Assume(d < 0x80 && d != ' ' && d != '\t' && d != '#')
		b = append(b, d)
	case 2:
		b = append(b, 'f', 'e', '8', '0', ':', ':', '1', '%')
		b = c07Free(b, 2, true)
	default:
		if verifrt.Thorough() {
			b = c07Free(b, 3, true)
		} else {
			b = c07Free(b, 2, true)
		}
	}
	nn := 1 + verifrt.Choice(2)
	nameMax := 2
	for i := 0; i < nn; i++ {
		b = c07WS(b, 1)
		if i == 0 {
			b = c07Free(b, nameMax, true)
		} else {
			// later names are one arbitrary byte
			b = c07Free(b, 1, true)
		}
	}
	b = c07WS(b, 0)
	if verifrt.Bool2() {
		// comment of 0..1 (thorough 0..2) arbitrary bytes
		cl := 1
		if verifrt.Thorough() {
			cl = 2
		}
		b = append(b, '#')
		b = append(b, verifrt.Bytes(verifrt.Len(cl))...)
	}
	verifAssumeNoACEBytes(b)
	rec, ok := c07Check(b)
	if ok {
		c07RoundTrip(rec)
	}
}

// VerifC07Addrs: address-shaped first fields of every family (dotted quad,
// IPv4-mapped and IPv4-embedding IPv6, compressed IPv6, zoned) with arbitrary
// digits, one short name; grammar and Marshal/Unmarshal round trip.
func VerifC07Addrs() {
	var b []byte
	b = append(b, [...]string{"", "::ffff:", "::FFFF:", "::", "64:ff9b::", "1::", "0:0:0:0:0:ffff:"}[verifrt.Choice(7)]...)
	switch verifrt.Choice(3) {
	case 0:
		for k := 0; k < 4; k++ {
			if k > 0 {
				b = append(b, '.')
			}
			d := verifrt.Byte()
			verifrt.Assume(d >= '0' && d <= '9')
			b = append(b, d)
		}
	case 1:
		for k := 0; k < 2; k++ {
			if k > 0 {
				b = append(b, ':')
			}
			d := verifrt.Byte()
			verifrt.Assume(d >= '0' && d <= '9' || d >= 'a' && d <= 'f')
			b = append(b, d)
		}
	default:
		d := verifrt.Byte()
		verifrt.Assume(d >= '0' && d <= '9' || d >= 'a' && d <= 'f')
		b = append(b, d)
	}
	if verifrt.Bool2() {
		b = append(b, '%')
		z := verifrt.Byte()
		verifrt.Assume(z < 0x80 && z != ' ' && z != '\t' && z != '#')
		b = append(b, z)
	}
	b = append(b, ' ')
	b = c07Free(b, 1, true)
	rec, ok := c07Check(b)
	if ok {
		c07RoundTrip(rec)
	}
}

// VerifC07IDN: a line whose middle name is an internationalised name with raw
// and punycode lengths on opposite sides of the 253-byte limit (3..5 labels of
// 50 two-byte letters: 303..505 raw bytes, far fewer in punycode; or 29..32
// two-byte labels: short raw, 232..256 punycode bytes); names are valid iff
// ValidateDomainName says so, whatever their raw length.
func VerifC07IDN() {
	name := ""
	if verifrt.Bool2() {
		for k := 3 + verifrt.Choice(3); k > 0; k-- {
			for j := 0; j < 50; j++ {
				name += "а"
			}
			name += "."
		}
	} else {
		for k := 29 + verifrt.Choice(4); k > 0; k-- {
			name += "я."
		}
	}
	c := verifrt.Byte()
	verifrt.Assume(c < 0x80 && c != '.' && c != 'x' && c != ' ' && c != '\t' && c != '#')
	name += "c" + string([]byte{c})
	line := []byte("1.2.3.4 first.example " + name + " last.example")
	rec, ok := c07Check(line)
	if ok {
		c07RoundTrip(rec)
	}
}
