//go:build verif

package hostsfile

import (
	"net/netip"

	"github.com/AdguardTeam/golibs/internal/verifrt"
)

// VerifC01Record: Record text methods on arbitrary ASCII lines and records.
func VerifC01Record() {
	max := 4
	if verifrt.Thorough() {
		max = 6
	}
	switch verifrt.Choice(3) {
	case 0:
		line := verifrt.Bytes(verifrt.Len(max))
		verifAssumeASCIIBytes(line)
		verifAssumeNoACEBytes(line)
		rec := &Record{}
		_ = rec.UnmarshalText(line)
	case 1:
		var a netip.Addr
		switch verifrt.Choice(3) {
		case 0:
		case 1:
			var b [4]byte
			copy(b[:], verifrt.Bytes(4))
			a = netip.AddrFrom4(b)
		default:
			// two arbitrary bytes in an otherwise fixed IPv6 address (the
			// text form of a fully symbolic one forks on every zero run)
			b := [16]byte{0: 0x20, 1: 0x01}
			b[2+verifrt.Choice(13)] = verifrt.Byte()
			b[15] = verifrt.Byte()
			a = netip.AddrFrom16(b).WithZone(verifrt.String(verifrt.Len(1)))
		}
		rec := Record{Addr: a, Source: verifrt.String(verifrt.Len(1))}
		for i, n := 0, verifrt.Len(2); i < n; i++ {
			rec.Names = append(rec.Names, verifrt.String(verifrt.Len(2)))
		}
		_, _ = rec.MarshalText()
	default:
		e := &LineError{Line: verifrt.Int(), err: ErrNoHosts}
		_ = e.Error()
		_ = e.Unwrap()
		DiscardSet{}.Add(nil)
		FuncSet(func(*Record) {}).Add(&Record{})
		s, _ := NewDefaultStorage()
		s.HandleInvalid(verifrt.String(verifrt.Len(1)), nil, e)
		s.HandleInvalid("", nil, ErrEmptyLine)
		_ = s.ByName(verifrt.String(verifrt.Len(2)))
		_ = s.ByAddr(netip.Addr{})
		_ = s.Equal(nil)
		_ = (*DefaultStorage)(nil).Equal(s)
	}
	verifrt.Cover("returned")
}
