//go:build verif

package hostsfile

import (
	"errors"
	"io"
	"net/netip"

	"github.com/AdguardTeam/golibs/internal/verifrt"
)

// ---- Parse ----

// c08Reader delivers src in fragments: a chunk size chosen per run (1, 2, 3,
// 5 bytes or everything), optionally two (0, nil) reads in a row before the
// k-th data read, and EOF either together with the last data or separately.
// Every split point of the stream occurs under some choice.
type c08Reader struct {
	src     []byte
	pos     int
	chunk   int
	emptyAt int
	empties int
	reads   int
	eofData bool
}

func c08NewReader(src []byte) *c08Reader {
	r := &c08Reader{src: src}
	if verifrt.Thorough() {
		r.chunk = [...]int{1, 2, 3, 5, 1 << 20}[verifrt.Choice(5)]
		r.emptyAt = verifrt.Choice(4) - 1
	} else {
		r.chunk = [...]int{1, 3, 1 << 20}[verifrt.Choice(3)]
		r.emptyAt = verifrt.Choice(3) - 1
	}
	r.eofData = verifrt.Bool2()

	return r
}

func (r *c08Reader) Read(p []byte) (n int, err error) {
	rem := len(r.src) - r.pos
	if rem == 0 {
		return 0, io.EOF
	}
	if r.reads == r.emptyAt && r.empties < 2 {
		r.empties++

		return 0, nil
	}
	r.reads++
	n = r.chunk
	if len(p) < n {
		n = len(p)
	}
	if rem < n {
		n = rem
	}
	copy(p, r.src[r.pos:r.pos+n])
	r.pos += n
	if r.pos == len(r.src) && r.eofData {
		return n, io.EOF
	}

	return n, nil
}

type c08Named struct{ *c08Reader }

func (c08Named) Name() string { return "src-name" }

type c08Call struct {
	add  bool
	rec  *Record
	line int
	data string
	src  string
}

// c08Set records Add calls only.
type c08Set struct{ log *[]c08Call }

func (s c08Set) Add(rec *Record) { *s.log = append(*s.log, c08Call{add: true, rec: rec}) }

// c08HandleSet also records HandleInvalid calls.
type c08HandleSet struct{ c08Set }

func (s c08HandleSet) HandleInvalid(srcName string, data []byte, err error) {
	c := c08Call{src: srcName, data: string(data), line: -1}
	var le *LineError
	if errors.As(err, &le) {
		c.line = le.Line
	}
	*s.log = append(*s.log, c)
}

// c08Lines splits src as bufio.ScanLines defines it.
func c08Lines(src []byte) (lines [][]byte) {
	lo := 0
	for i := 0; i < len(src); i++ {
		if src[i] == '\n' {
			lines = append(lines, c08DropCR(src[lo:i]))
			lo = i + 1
		}
	}
	if lo < len(src) {
		lines = append(lines, c08DropCR(src[lo:]))
	}

	return lines
}

func c08DropCR(b []byte) []byte {
	if len(b) > 0 && b[len(b)-1] == '\r' {
		return b[:len(b)-1]
	}

	return b
}

func c08SameRec(a, b *Record) bool {
	if a.Addr != b.Addr || a.Source != b.Source || len(a.Names) != len(b.Names) {
		return false
	}
	for i := range a.Names {
		if a.Names[i] != b.Names[i] {
			return false
		}
	}

	return true
}

// VerifC08Parse: Parse against the line-by-line reference under every reader
// fragmentation.
func VerifC08Parse() {
	var src []byte
	if verifrt.Bool2() {
		// free bytes over a small alphabet (chosen by the solver)
		max := 4
		if verifrt.Thorough() {
			max = 5
		}
		src = verifrt.Bytes(verifrt.Len(max))
		for i := range src {
			c := src[i]
			verifrt.Assume(c == ':' || c == '1' || c == 'a' || c == ' ' || c == '#' || c == '\r' || c == '\n')
		}
	} else {
		// 1..2 lines from templates with every terminator combination
		k, nt := 1+verifrt.Choice(2), 7
		if verifrt.Thorough() {
			k, nt = 1+verifrt.Choice(2), 8 // (three template lines do not finish within the thorough budget)
		}
		for i := 0; i < k; i++ {
			src = append(src, [...]string{"::1 a", "1.1.1.1 a.a b", "", "x", "::1 a\r", "#c", "::1 a  b\tc \t d #e #f", "::1"}[verifrt.Choice(nt)]...)
			switch verifrt.Choice(3) {
			case 0:
				src = append(src, '\n')
			case 1:
				src = append(src, '\r', '\n')
			default:
				// no terminator: the next template continues the line
			}
		}
	}
	orig := append([]byte(nil), src...)
	rd := c08NewReader(src)
	var reader io.Reader = rd
	wantSrc := ""
	if verifrt.Bool2() {
		reader = c08Named{rd}
		wantSrc = "src-name"
	}
	var log []c08Call
	handle := verifrt.Bool2()
	var dst Set = c08Set{&log}
	if handle {
		dst = c08HandleSet{c08Set{&log}}
	}
	err := Parse(dst, reader, make([]byte, 0, 4))

	// reference
	lines := c08Lines(orig)
	var want []c08Call
	var wantBad []int
	for i, l := range lines {
		rec := &Record{Source: wantSrc}
		if uerr := rec.UnmarshalText(append([]byte(nil), l...)); uerr != nil {
			wantBad = append(wantBad, i+1)
			if handle {
				want = append(want, c08Call{line: i + 1, data: string(l), src: wantSrc})
			}
		} else {
			// the record of a well-formed line, independently of
			// UnmarshalText: the fields after the first
			f := c07Fields(l)
			verifrt.Assert(len(f) >= 2 && c07EqNames(rec.Names, f[1:]), "the record of a well-formed line does not carry exactly the names of the line")
			want = append(want, c08Call{add: true, rec: rec})
		}
	}
	verifrt.ObserveInt("lines", int64(len(lines)))
	verifrt.ObserveInt("calls", int64(len(log)))
	verifrt.Assert(len(log) == len(want), "number of Add/HandleInvalid calls differs from the number of lines expected")
	for i := 0; i < len(log) && i < len(want); i++ {
		g, w := log[i], want[i]
		verifrt.Assert(g.add == w.add, "a line was delivered to the wrong destination method (or out of order)")
		if g.add && w.add {
			verifrt.Assert(c08SameRec(g.rec, w.rec), "delivered record differs from the parse of the source line")
		} else if !g.add && !w.add {
			verifrt.Assert(g.line == w.line, "invalid line reported with a wrong line number")
			verifrt.Assert(g.data == w.data && g.src == w.src, "invalid line reported with wrong data or source name")
		}
	}
	if handle || len(wantBad) == 0 {
		verifrt.Assert(err == nil, "Parse returned an error although every invalid line went to HandleInvalid (or there was none)")
	} else {
		verifrt.Assert(err != nil, "invalid lines were neither handled nor returned")
		// structural inspection: wrapper -> joined errors -> *LineError
		var got []int
		if u, ok := err.(interface{ Unwrap() error }); ok {
			if j, ok := u.Unwrap().(interface{ Unwrap() []error }); ok {
				for _, e := range j.Unwrap() {
					var le *LineError
					if errors.As(e, &le) {
						got = append(got, le.Line)
					} else {
						got = append(got, -1)
					}
				}
			}
		}
		verifrt.Assert(len(got) == len(wantBad), "joined error does not report every invalid line exactly once")
		for i := 0; i < len(got) && i < len(wantBad); i++ {
			verifrt.Assert(got[i] == wantBad[i], "joined error reports a wrong line number")
		}
	}
	switch {
	case len(lines) == 0:
		verifrt.Cover("no-lines")
	case len(wantBad) == 0:
		verifrt.Cover("all-good")
	default:
		verifrt.Cover("some-bad")
	}
}

// ---- DefaultStorage ----

type c08NameEnt struct {
	lowered string
	addrs   []netip.Addr
}

type c08AddrEnt struct {
	addr    netip.Addr
	names   []string
	lowered []string
}

type c08Model struct {
	byName []c08NameEnt
	byAddr []c08AddrEnt
}

func c08LowerASCII(s string) string {
	b := []byte(s)
	for i, c := range b {
		nc := c
		if c >= 'A' && c <= 'Z' {
			nc = c + 32
		}
		b[i] = nc
	}

	return string(b)
}

func (m *c08Model) add(addr netip.Addr, names []string) {
	for _, n := range names {
		lo := c08LowerASCII(n)
		// address index
		ai := -1
		for i := range m.byAddr {
			if m.byAddr[i].addr == addr {
				ai = i

				break
			}
		}
		if ai < 0 {
			m.byAddr = append(m.byAddr, c08AddrEnt{addr: addr})
			ai = len(m.byAddr) - 1
		}
		seen := false
		for _, l := range m.byAddr[ai].lowered {
			if l == lo {
				seen = true
			}
		}
		if !seen {
			m.byAddr[ai].names = append(m.byAddr[ai].names, n)
			m.byAddr[ai].lowered = append(m.byAddr[ai].lowered, lo)
		}
		// name index
		ni := -1
		for i := range m.byName {
			if m.byName[i].lowered == lo {
				ni = i

				break
			}
		}
		if ni < 0 {
			m.byName = append(m.byName, c08NameEnt{lowered: lo})
			ni = len(m.byName) - 1
		}
		seenA := false
		for _, a := range m.byName[ni].addrs {
			if a == addr {
				seenA = true
			}
		}
		if !seenA {
			m.byName[ni].addrs = append(m.byName[ni].addrs, addr)
		}
	}
}

func c08Letter() byte {
	c := verifrt.Byte()
	verifrt.Assume(c >= 'a' && c <= 'z' || c >= 'A' && c <= 'Z')

	return c
}

func c08EqStrs(a, b []string) bool {
	if len(a) != len(b) {
		return false
	}
	for i := range a {
		if a[i] != b[i] {
			return false
		}
	}

	return true
}

func c08EqAddrs(a, b []netip.Addr) bool {
	if len(a) != len(b) {
		return false
	}
	for i := range a {
		if a[i] != b[i] {
			return false
		}
	}

	return true
}

// c08CountNames counts the entries of the by-address index.
func c08CountNames(s *DefaultStorage) (n int) {
	s.RangeNames(func(netip.Addr, []string) bool { n++; return true })

	return n
}

func c08CountAddrs(s *DefaultStorage) (n int) {
	s.RangeAddrs(func(string, []netip.Addr) bool { n++; return true })

	return n
}

// VerifC08Storage: sequences of Add calls against association lists.
func VerifC08Storage() {
	// (three Adds do not finish within the thorough budget)
	steps := 2
	var v4a, v4b [4]byte
	copy(v4a[:], verifrt.Bytes(4))
	copy(v4b[:], verifrt.Bytes(4))
	var v6 [16]byte
	copy(v6[:], verifrt.Bytes(16))
	pool := [...]netip.Addr{netip.AddrFrom4(v4a), netip.AddrFrom4(v4b), netip.AddrFrom16(v6)}
	s, err := NewDefaultStorage()
	verifrt.Assert(err == nil && s != nil, "NewDefaultStorage failed")
	m := &c08Model{}
	var used []string
	n := 1 + verifrt.Choice(steps)
	for i := 0; i < n; i++ {
		addr := pool[verifrt.Choice(3)]
		var names []string
		k := verifrt.Len(2)
		for j := 0; j < k; j++ {
			nm := string([]byte{c08Letter()})
			names = append(names, nm)
			used = append(used, nm)
		}
		if k == 0 {
			// a record without names changes nothing
			n0, a0 := c08CountNames(s), c08CountAddrs(s)
			before := s.ByAddr(addr)
			empty, _ := NewDefaultStorage()
			wasEmpty := s.Equal(empty)
			s.Add(&Record{Addr: addr})
			verifrt.Assert(c08CountNames(s) == n0 && c08CountAddrs(s) == a0, "a record without names changed the indexes")
			verifrt.Assert(c08EqStrs(s.ByAddr(addr), before), "a record without names changed ByAddr")
			verifrt.Assert(s.Equal(empty) == wasEmpty, "a record without names changed Equal")
			verifrt.Cover("no-names")

			continue
		}
		s.Add(&Record{Addr: addr, Names: names})
		m.add(addr, names)
	}
	// observers
	for _, a := range pool {
		var want []string
		for _, e := range m.byAddr {
			if e.addr == a {
				want = e.names
			}
		}
		verifrt.Assert(c08EqStrs(s.ByAddr(a), want), "ByAddr differs from the first-seen names of the address")
	}
	for _, u := range used {
		// query in a (symbolically) different letter case
		q := []byte(u)
		flip := verifrt.Bool()
		nc := q[0]
		if flip {
			nc = q[0] ^ 0x20
		}
		q[0] = nc
		var want []netip.Addr
		for _, e := range m.byName {
			if e.lowered == c08LowerASCII(u) {
				want = e.addrs
			}
		}
		verifrt.Assert(c08EqAddrs(s.ByName(string(q)), want), "ByName differs from the first-seen addresses of the name (case-insensitively)")
	}
	verifrt.Assert(c08CountNames(s) == len(m.byAddr), "RangeNames yields a different number of addresses than were added with names")
	verifrt.Assert(c08CountAddrs(s) == len(m.byName), "RangeAddrs yields a different number of names than were added")
	// the two indexes agree: every (addr, name) pair of one is in the other
	s.RangeNames(func(a netip.Addr, names []string) bool {
		for _, nm := range names {
			found := false
			for _, x := range s.ByName(nm) {
				if x == a {
					found = true
				}
			}
			verifrt.Assert(found, "a pair of the by-address index is missing from the by-name index")
		}

		return true
	})
	s.RangeAddrs(func(host string, addrs []netip.Addr) bool {
		for _, a := range addrs {
			found := false
			for _, nm := range s.ByAddr(a) {
				if c08LowerASCII(nm) == host {
					found = true
				}
			}
			verifrt.Assert(found, "a pair of the by-name index is missing from the by-address index")
		}

		return true
	})
	// Equal against a storage built from the reference
	ref, _ := NewDefaultStorage()
	for _, e := range m.byAddr {
		ref.Add(&Record{Addr: e.addr, Names: e.names})
	}
	verifrt.Assert(s.Equal(s), "Equal is not reflexive")
	if len(m.byAddr) > 0 {
		verifrt.Cover("added")
	}
}
