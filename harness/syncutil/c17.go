//go:build verif

package syncutil

import (
	"context"
	"errors"
	"sync"
	"sync/atomic"
	"time"

	"github.com/AdguardTeam/golibs/internal/verifrt"
)

type c17Obj struct{ key int }

// VerifC17Once: N concurrent Gets over overlapping keys: one constructor call
// per distinct key, every caller gets that single result.  All interleavings
// at synchronisation points are explored.
func VerifC17Once() {
	n := 2
	if verifrt.Thorough() {
		n = 3
	}
	var calls [2]int32
	oc := NewOnceConstructor(func(k int) *c17Obj {
		atomic.AddInt32(&calls[k], 1)

		return &c17Obj{key: k}
	})
	keys := make([]int, n)
	for i := range keys {
		b := verifrt.Byte()
		verifrt.Assume(b < 2)
		keys[i] = int(b)
	}
	res := make([]*c17Obj, n)
	var wg sync.WaitGroup
	for i := 0; i < n; i++ {
		wg.Add(1)
		go func(i int) {
			defer wg.Done()
			res[i] = oc.Get(keys[i])
		}(i)
	}
	wg.Wait()
	var requested [2]bool
	for i := 0; i < n; i++ {
		requested[keys[i]] = true
		verifrt.Assert(res[i] != nil && res[i].key == keys[i], "Get returned the result of another key (or nil)")
		for j := 0; j < i; j++ {
			if keys[i] == keys[j] {
				verifrt.Assert(res[i] == res[j], "two callers of the same key received different results")
			}
		}
	}
	for k := 0; k < 2; k++ {
		c := atomic.LoadInt32(&calls[k])
		if requested[k] {
			verifrt.Assert(c == 1, "the constructor was not invoked exactly once for a requested key")
		} else {
			verifrt.Assert(c == 0, "the constructor was invoked for a key nobody requested")
		}
	}
	// later Gets return the cached result without constructing again
	again := oc.Get(keys[0])
	verifrt.Assert(again == res[0] && atomic.LoadInt32(&calls[keys[0]]) == 1, "a later Get constructed again or returned another result")
	verifrt.Cover("done")
}

// VerifC17OnceGate: the construction of key 0 blocks until released; Get of
// key 1 (and a second Get of key 0, which must wait) are started meanwhile.
// Get(1) must finish while the construction of 0 is still blocked.
func VerifC17OnceGate() {
	gate := make(chan struct{})
	var calls [2]int32
	oc := NewOnceConstructor(func(k int) *c17Obj {
		atomic.AddInt32(&calls[k], 1)
		if k == 0 {
			<-gate
		}

		return &c17Obj{key: k}
	})
	done1 := make(chan *c17Obj, 1)
	var wg sync.WaitGroup
	res0 := make([]*c17Obj, 2)
	for i := 0; i < 2; i++ {
		wg.Add(1)
		go func(i int) {
			defer wg.Done()
			res0[i] = oc.Get(0)
		}(i)
	}
	go func() { done1 <- oc.Get(1) }()
	// the gate is closed only after Get(1) has returned: if the slow
	// construction of key 0 blocked it, every goroutine would be blocked
	// (reported as a deadlock)
	r1 := <-done1
	verifrt.Assert(r1 != nil && r1.key == 1, "Get(1) returned a wrong result")
	close(gate)
	wg.Wait()
	verifrt.Assert(res0[0] != nil && res0[0] == res0[1] && res0[0].key == 0, "callers of the slow key did not receive the single result")
	verifrt.Assert(atomic.LoadInt32(&calls[0]) == 1 && atomic.LoadInt32(&calls[1]) == 1, "constructor calls per key differ from one")
	verifrt.Cover("done")
}

// c17Ctx is a context honouring the context.Context contract: Done is closed
// exactly when Err becomes non-nil.
type c17Ctx struct {
	done chan struct{}
	mu   sync.Mutex
	err  error
}

func (c *c17Ctx) Deadline() (time.Time, bool) { return time.Time{}, false }
func (c *c17Ctx) Done() <-chan struct{}       { return c.done }
func (c *c17Ctx) Value(any) any               { return nil }
func (c *c17Ctx) Err() error {
	c.mu.Lock()
	defer c.mu.Unlock()

	return c.err
}

func (c *c17Ctx) cancel() {
	c.mu.Lock()
	c.err = context.Canceled
	c.mu.Unlock()
	close(c.done)
}

// VerifC17Sema: well-behaved clients and a canceller on a semaphore of every
// capacity in the bound.
func VerifC17Sema() {
	maxCap, clients := 2, 3
	if verifrt.Thorough() {
		maxCap, clients = 3, 3
	}
	capN := verifrt.Len(maxCap)
	sem := NewChanSemaphore(uint(capN))
	ctx := &c17Ctx{done: make(chan struct{})}
	var holders, maxSeen, acquired, failed int32
	var wg sync.WaitGroup
	for i := 0; i < clients; i++ {
		wg.Add(1)
		go func() {
			defer wg.Done()
			err := sem.Acquire(ctx)
			if err != nil {
				verifrt.Assert(err == context.Canceled && ctx.Err() != nil, "Acquire failed with something else than the error of a done context")
				atomic.AddInt32(&failed, 1)

				return
			}
			h := atomic.AddInt32(&holders, 1)
			verifrt.Assert(int(h) <= capN, "more successful Acquires outstanding than the capacity")
			if h > atomic.LoadInt32(&maxSeen) {
				atomic.StoreInt32(&maxSeen, h)
			}
			atomic.AddInt32(&acquired, 1)
			verifrt.Yield()
			atomic.AddInt32(&holders, -1)
			sem.Release()
		}()
	}
	wg.Add(1)
	go func() {
		defer wg.Done()
		ctx.cancel()
	}()
	wg.Wait()
	verifrt.Assert(int(atomic.LoadInt32(&acquired)+atomic.LoadInt32(&failed)) == clients, "a client neither acquired nor failed")
	if capN == 0 {
		verifrt.Assert(atomic.LoadInt32(&acquired) == 0, "a semaphore of capacity 0 was acquired")
	}
	// Release never blocks, even with nothing to release
	sem.Release()
	sem.Release()
	// all slots are free again
	for i := 0; i < capN; i++ {
		free := &c17Ctx{done: make(chan struct{})}
		verifrt.Assert(sem.Acquire(free) == nil, "a slot was lost: Acquire on a quiescent semaphore blocks or fails")
	}
	if atomic.LoadInt32(&failed) > 0 {
		verifrt.Cover("cancelled")
	}
	if atomic.LoadInt32(&acquired) > 0 {
		verifrt.Cover("acquired")
	}
}

// VerifC17SemaHold: capacity 1, two clients; whoever gets the slot keeps it
// until the other client's Acquire has returned.  The other one can only
// return through the context's cancellation, while no slot is free: an
// Acquire that does not honour a done context leaves everybody blocked.
func VerifC17SemaHold() {
	sem := NewChanSemaphore(1)
	ctx := &c17Ctx{done: make(chan struct{})}
	finished := [2]chan struct{}{make(chan struct{}), make(chan struct{})}
	var acquired, failed int32
	var wg sync.WaitGroup
	for i := 0; i < 2; i++ {
		wg.Add(1)
		go func(i int) {
			defer wg.Done()
			err := sem.Acquire(ctx)
			close(finished[i])
			if err != nil {
				verifrt.Assert(err == context.Canceled && ctx.Err() != nil, "Acquire failed with something else than the error of a done context")
				atomic.AddInt32(&failed, 1)

				return
			}
			atomic.AddInt32(&acquired, 1)
			<-finished[1-i] // hold the slot until the other Acquire returned
			sem.Release()
		}(i)
	}
	wg.Add(1)
	go func() {
		defer wg.Done()
		ctx.cancel()
	}()
	wg.Wait()
	verifrt.Assert(atomic.LoadInt32(&acquired) <= 1, "two holders on a semaphore of capacity 1")
	verifrt.Assert(atomic.LoadInt32(&acquired)+atomic.LoadInt32(&failed) == 2, "a client neither acquired nor failed")
	verifrt.Cover("done")
}

var errC17Cause = errors.New("c17 cause")

// VerifC17SemaCause: contexts of the real context package that are done with
// an explicit cause (WithCancelCause, also as the parent of a derived
// context): a blocked Acquire returns ctx.Err(), not the cause.
func VerifC17SemaCause() {
	n := verifrt.Len(2)
	sem := NewChanSemaphore(uint(n))
	for i := 0; i < n; i++ {
		verifrt.Assert(sem.Acquire(context.Background()) == nil, "Acquire with a free slot failed")
	}
	parent, cancel := context.WithCancelCause(context.Background())
	var ctx context.Context = parent
	if verifrt.Bool2() {
		// a derived context of a user type, as context.Context is usually
		// embedded
		ctx = c17Wrap{Context: parent}
	}
	if verifrt.Bool2() {
		cancel(errC17Cause)
	} else {
		cancel(nil)
	}
	err := sem.Acquire(ctx)
	verifrt.Assert(err != nil, "Acquire succeeded although no slot is free and the context is done")
	verifrt.Assert(err == ctx.Err() && err == context.Canceled, "Acquire did not return the context's error")
	// a failed Acquire neither takes nor frees a slot: all n are still held,
	// so a further Acquire (whichever ready case its select picks) fails too
	verifrt.Assert(len(sem.c) == n, "a failed Acquire changed the number of held slots")
	err = sem.Acquire(ctx)
	verifrt.Assert(err != nil, "Acquire succeeded on a full semaphore after a failed Acquire: more holders than the capacity")
	verifrt.Assert(len(sem.c) == n, "a failed Acquire changed the number of held slots")
	sem.Release()
	verifrt.Cover("done")
}

type c17Wrap struct{ context.Context }
