//go:build verif

package netutil

import (
	"net"
	"net/netip"
	"slices"

	"github.com/AdguardTeam/golibs/internal/verifrt"
)

func c12IP() net.IP {
	k := verifrt.Choice(9)
	if k == 0 {
		return nil
	}
	n := [...]int{0, 0, 3, 4, 5, 12, 15, 16, 17}[k]

	return net.IP(verifrt.Bytes(n))
}

func c12Is4in6(ip net.IP) bool {
	if len(ip) != 16 {
		return false
	}
	for i := 0; i < 10; i++ {
		if ip[i] != 0 {
			return false
		}
	}

	return ip[10] == 0xff && ip[11] == 0xff
}

// VerifC12IPToAddr: IPToAddr keeps the address bytes and the requested family.
func VerifC12IPToAddr() {
	ip := c12IP()
	orig := append(net.IP(nil), ip...)
	fam := AddrFamilyIPv4
	if verifrt.Bool2() {
		fam = AddrFamilyIPv6
	}
	addr, err := IPToAddr(ip, fam)
	for i := range orig {
		verifrt.Assert(ip[i] == orig[i], "IPToAddr modified its argument")
	}
	verifrt.ObserveBool("ok", err == nil)
	is4 := len(orig) == 4 || c12Is4in6(orig)
	switch {
	case fam == AddrFamilyIPv4 && is4:
		verifrt.Assert(err == nil && addr.Is4(), "an IPv4 address was not converted to an IPv4 Addr")
		if err == nil {
			b, v4 := addr.As4(), orig[len(orig)-4:]
			for i := range b {
				verifrt.Assert(b[i] == v4[i], "IPv4 bytes changed")
			}
		}
		verifrt.Cover("v4-ok")
	case fam == AddrFamilyIPv4:
		verifrt.Assert(err != nil, "a non-IPv4 value was accepted as IPv4")
		verifrt.Cover("v4-rejected")
	case len(orig) == 16 || len(orig) == 4:
		verifrt.Assert(err == nil && addr.Is6() && addr.Zone() == "", "a 4- or 16-byte address was not converted to an IPv6 Addr")
		if err == nil {
			b := addr.As16()
			want := orig
			if len(orig) == 4 {
				want = net.IPv4(orig[0], orig[1], orig[2], orig[3])
			}
			for i := range b {
				verifrt.Assert(b[i] == want[i], "IPv6 bytes changed")
			}
		}
		verifrt.Cover("v6-ok")
	default:
		verifrt.Assert(err != nil, "a slice that is not an IP address was accepted")
		verifrt.Cover("v6-rejected")
	}
}

// VerifC12NoMapped: IPToAddrNoMapped returns the unmapped family.
func VerifC12NoMapped() {
	ip := c12IP()
	orig := append(net.IP(nil), ip...)
	addr, err := IPToAddrNoMapped(ip)
	verifrt.ObserveBool("ok", err == nil)
	switch {
	case len(orig) == 4 || c12Is4in6(orig):
		verifrt.Assert(err == nil && addr.Is4(), "IPv4 or IPv4-mapped input must give an IPv4 Addr")
		if err == nil {
			b, v4 := addr.As4(), orig[len(orig)-4:]
			for i := range b {
				verifrt.Assert(b[i] == v4[i], "IPv4 bytes changed")
			}
		}
		verifrt.Cover("v4")
	case len(orig) == 16:
		verifrt.Assert(err == nil && addr.Is6() && !addr.Is4In6(), "a 16-byte non-mapped address must give an IPv6 Addr")
		if err == nil {
			b := addr.As16()
			for i := range b {
				verifrt.Assert(b[i] == orig[i], "IPv6 bytes changed")
			}
		}
		verifrt.Cover("v6")
	default:
		verifrt.Assert(err != nil, "a slice that is not an IP address was accepted")
		verifrt.Cover("rejected")
	}
}

// VerifC12NetAddr: NetAddrToAddrPort keeps address (unmapped), zone and port.
func VerifC12NetAddr() {
	n := [...]int{4, 16}[verifrt.Choice(2)]
	ip := net.IP(verifrt.Bytes(n))
	port := int(verifrt.Uint16())
	zone := ""
	if n == 16 {
		zone = verifrt.String(verifrt.Len(2))
	}
	var a net.Addr
	switch verifrt.Choice(4) {
	case 0:
		a = &net.TCPAddr{IP: ip, Port: port, Zone: zone}
	case 1:
		a = &net.UDPAddr{IP: ip, Port: port, Zone: zone}
	case 2:
		a = &net.IPAddr{IP: ip, Zone: zone}
		got := NetAddrToAddrPort(a)
		verifrt.Assert(!got.IsValid(), "an address without a port must give the zero AddrPort")
		verifrt.Cover("no-port")

		return
	default:
		a = &net.UnixAddr{Name: "x", Net: "unix"}
		got := NetAddrToAddrPort(a)
		verifrt.Assert(!got.IsValid(), "a non-IP address must give the zero AddrPort")
		verifrt.Cover("not-ip")

		return
	}
	got := NetAddrToAddrPort(a)
	verifrt.Assert(got.Port() == uint16(port), "port changed")
	ga := got.Addr()
	if n == 4 || c12Is4in6(ip) {
		verifrt.Assert(ga.Is4(), "IPv4 or mapped address must come back as IPv4")
		b, v4 := ga.As4(), ip[len(ip)-4:]
		for i := range b {
			verifrt.Assert(b[i] == v4[i], "address bytes changed")
		}
		verifrt.Cover("v4")
	} else {
		verifrt.Assert(ga.Is6() && !ga.Is4In6(), "IPv6 address must come back as IPv6")
		b := ga.As16()
		for i := range b {
			verifrt.Assert(b[i] == ip[i], "address bytes changed")
		}
		verifrt.Assert(ga.Zone() == zone, "zone changed")
		verifrt.Cover("v6")
	}
}

// VerifC12Subnet: IPNetToPrefix(NoMapped) for masks as long as the converted
// address: same members as the *net.IPNet (the real net.IPNet.Contains is
// the oracle); nil / non-contiguous masks (net.IPMask.Size reports 0, 0)
// rejected.
func VerifC12Subnet() {
	var ipLen int
	noMapped := verifrt.Bool2()
	fam := AddrFamilyIPv4
	if verifrt.Bool2() {
		fam = AddrFamilyIPv6
	}
	if fam == AddrFamilyIPv4 {
		ipLen = 4
	} else {
		ipLen = 16
	}
	ip := net.IP(verifrt.Bytes(ipLen))
	var mask net.IPMask
	nilMask := verifrt.Bool2()
	if !nilMask {
		mask = net.IPMask(verifrt.Bytes(ipLen))
	}
	subnet := &net.IPNet{IP: append(net.IP(nil), ip...), Mask: mask}
	mapped := c12Is4in6(ip)
	ones, bits := mask.Size()
	canonical := !nilMask && bits != 0
	// net identifies an IPv4-mapped address with its 4-byte form and then
	// applies only the last four bytes of a 16-byte mask; the converted
	// IPv6 prefix applies the leading bits to the 16-byte form.
	verifrt.Known("C12-4in6-ip-with-short-16-byte-mask", mapped && canonical && !noMapped && ones < 96)
	var p netip.Prefix
	var err error
	if noMapped {
		p, err = IPNetToPrefixNoMapped(subnet)
	} else {
		p, err = IPNetToPrefix(subnet, fam)
	}
	verifrt.ObserveBool("ok", err == nil)
	if !canonical {
		verifrt.Assert(err != nil, "a nil or non-contiguous mask was accepted (widened)")
		verifrt.Cover("bad-mask")

		return
	}
	if mapped && noMapped {
		// the converted address is the 4-byte form, the mask is 16 bytes: not
		// "a mask as long as the converted address"
		verifrt.Cover("mapped-nomapped")

		return
	}
	verifrt.Assert(err == nil, "a subnet with a canonical mask as long as its address was rejected")
	if err != nil {
		return
	}
	verifrt.Assert(p.Bits() == ones, "prefix length differs from the number of leading ones of the mask")
	// membership: every address x of the family
	x := net.IP(verifrt.Bytes(ipLen))
	// addresses of the prefix's family: package net treats an IPv4-mapped x
	// as IPv4 (never inside an IPv6 network), netip as IPv6
	// (excluded by the single-byte condition x[10] != 0xff, which also
	// drops the other addresses with that byte: membership is decided
	// byte-wise and uniformly, so no mask/address relation is lost)
	if ipLen == 16 {
		verifrt.Assume(x[10] != 0xff)
	}
	var xa netip.Addr
	if ipLen == 4 {
		xa = netip.AddrFrom4([4]byte(x))
	} else {
		xa = netip.AddrFrom16([16]byte(x))
	}
	ref := &net.IPNet{IP: ip, Mask: mask}
	verifrt.Assert(p.Contains(xa) == ref.Contains(x), "the prefix and the IPNet disagree on an address")
	verifrt.Cover("members")
}

// VerifC12SubnetMapped4: the usual shape of an IPv4 *net.IPNet built by
// package net helpers: a 16-byte IPv4-mapped IP with a 4-byte mask.  The
// converted address is the 4-byte form, so the mask is "as long as the
// converted address" for IPNetToPrefixNoMapped and for IPNetToPrefix(IPv4).
func VerifC12SubnetMapped4() {
	noMapped := verifrt.Bool2()
	ip := make(net.IP, 16)
	ip[10], ip[11] = 0xff, 0xff
	copy(ip[12:], verifrt.Bytes(4))
	mask := net.IPMask(verifrt.Bytes(4))
	subnet := &net.IPNet{IP: append(net.IP(nil), ip...), Mask: append(net.IPMask(nil), mask...)}
	ones, bits := mask.Size()
	var p netip.Prefix
	var err error
	if noMapped {
		p, err = IPNetToPrefixNoMapped(subnet)
	} else {
		p, err = IPNetToPrefix(subnet, AddrFamilyIPv4)
	}
	verifrt.ObserveBool("ok", err == nil)
	if bits == 0 {
		verifrt.Assert(err != nil, "a non-contiguous mask was accepted (widened)")
		verifrt.Cover("bad-mask")

		return
	}
	verifrt.Assert(err == nil, "an IPv4 subnet in 16-byte form with a canonical 4-byte mask was rejected")
	if err != nil {
		return
	}
	verifrt.Assert(p.Addr().Is4(), "the prefix of an IPv4 subnet is not of the IPv4 family")
	verifrt.Assert(p.Bits() == ones, "prefix length differs from the number of leading ones of the mask")
	x := net.IP(verifrt.Bytes(4))
	ref := &net.IPNet{IP: ip, Mask: mask}
	verifrt.Assert(p.Contains(netip.AddrFrom4([4]byte(x))) == ref.Contains(x), "the prefix and the IPNet disagree on an address")
	verifrt.Cover("members")
}

func c12Addr() netip.Addr {
	switch verifrt.Choice(4) {
	case 0:
		return netip.Addr{}
	case 1:
		return netip.AddrFrom4([4]byte(verifrt.Bytes(4)))
	case 2:
		return netip.AddrFrom16([16]byte(verifrt.Bytes(16)))
	default:
		return netip.AddrFrom16([16]byte(verifrt.Bytes(16))).WithZone(verifrt.String(1))
	}
}

// c12Class: 0 preferred family, 1 other family, 2 invalid.
func c12Class(a netip.Addr, v4 bool) int {
	switch {
	case !a.IsValid():
		return 2
	case a.Is4() == v4:
		return 0
	}

	return 1
}

// VerifC12Compare: PreferIPv4/PreferIPv6 order any two addresses by (class,
// address).
func VerifC12Compare() {
	a, b := c12Addr(), c12Addr()
	v4 := verifrt.Bool2()
	var res int
	if v4 {
		res = PreferIPv4(a, b)
	} else {
		res = PreferIPv6(a, b)
	}
	ca, cb := c12Class(a, v4), c12Class(b, v4)
	switch {
	case ca < cb:
		verifrt.Assert(res < 0, "an address of an earlier class must sort first")
		verifrt.Cover("class-less")
	case ca > cb:
		verifrt.Assert(res > 0, "an address of a later class must sort last")
		verifrt.Cover("class-greater")
	case ca == 2:
		verifrt.Cover("both-invalid")
	default:
		c := a.Compare(b)
		verifrt.Assert((res < 0) == (c < 0) && (res > 0) == (c > 0), "same-family addresses must sort ascending")
		verifrt.Cover("same-class")
	}
}

// VerifC12Sort: slices.SortFunc with the comparators orders every slice.
func VerifC12Sort() {
	max := 3
	if verifrt.Thorough() {
		max = 5
	}
	n := verifrt.Len(max)
	s := make([]netip.Addr, n)
	for i := range s {
		switch verifrt.Choice(3) {
		case 0:
		case 1:
			s[i] = netip.AddrFrom4([4]byte{0, 0, 0, verifrt.Byte()})
		default:
			s[i] = netip.AddrFrom16([16]byte{15: verifrt.Byte()})
		}
	}
	orig := append([]netip.Addr(nil), s...)
	v4 := verifrt.Bool2()
	if v4 {
		slices.SortFunc(s, PreferIPv4)
	} else {
		slices.SortFunc(s, PreferIPv6)
	}
	for i := 0; i+1 < len(s); i++ {
		ca, cb := c12Class(s[i], v4), c12Class(s[i+1], v4)
		verifrt.Assert(ca <= cb, "sorted slice is not grouped preferred family, other family, invalid")
		if ca == cb && ca != 2 {
			verifrt.Assert(s[i].Compare(s[i+1]) <= 0, "sorted slice is not ascending within a family")
		}
	}
	// permutation: same multiset
	for _, x := range orig {
		cnt, cnt2 := 0, 0
		for _, y := range orig {
			if x == y {
				cnt++
			}
		}
		for _, y := range s {
			if x == y {
				cnt2++
			}
		}
		verifrt.Assert(cnt == cnt2, "sorting changed the elements")
	}
	verifrt.Cover("sorted")
}
