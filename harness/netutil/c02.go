//go:build verif

package netutil

import (
	"net/netip"

	"github.com/AdguardTeam/golibs/internal/verifrt"
)

func c02RefAddr(s string) bool {
	_, err := netip.ParseAddr(s)

	return err == nil
}

func c02RefAddrPort(s string) bool {
	_, err := netip.ParseAddrPort(s)

	return err == nil
}

// VerifC02IPString: every byte string up to the bound.
func VerifC02IPString() {
	max := 6
	if verifrt.Thorough() {
		max = 8
	}
	s := verifrt.String(verifrt.Len(max))
	got := IsValidIPString(s)
	want := c02RefAddr(s)
	verifrt.ObserveBool("got", got)
	verifrt.Assert(got == want, "IsValidIPString disagrees with netip.ParseAddr")
	if got {
		verifrt.Cover("accepted")
	} else {
		verifrt.Cover("rejected")
	}
}

// VerifC02IPPortString: every byte string up to the bound.
func VerifC02IPPortString() {
	max := 6
	if verifrt.Thorough() {
		max = 8
	}
	s := verifrt.String(verifrt.Len(max))
	got := IsValidIPPortString(s)
	want := c02RefAddrPort(s)
	verifrt.ObserveBool("got", got)
	verifrt.Assert(got == want, "IsValidIPPortString disagrees with netip.ParseAddrPort")
	if got {
		verifrt.Cover("accepted")
	} else {
		verifrt.Cover("rejected")
	}
}

// VerifC02Label: IsValidHostnameLabel vs ValidateHostnameLabel on every byte
// string of length 0..65 (the 63/64 boundary is inside).
func VerifC02Label() {
	s := verifrt.String(verifrt.Len(65))
	got := IsValidHostnameLabel(s)
	want := ValidateHostnameLabel(s) == nil
	verifrt.ObserveBool("got", got)
	verifrt.Assert(got == want, "IsValidHostnameLabel disagrees with ValidateHostnameLabel")
	if got {
		verifrt.Cover("accepted")
	} else {
		verifrt.Cover("rejected")
	}
}

// VerifC02Hostname: IsValidHostname vs ValidateHostname on every ASCII string
// up to the bound, through the real idna.ToASCII.
func VerifC02Hostname() {
	max := 5
	if verifrt.Thorough() {
		max = 7
	}
	n := verifrt.Len(max)
	s := verifrt.String(n)
	verifAssumeASCII(s)
	verifAssumeNoACE(s)
	got := IsValidHostname(s)
	want := ValidateHostname(s) == nil
	verifrt.ObserveBool("got", got)
	verifrt.Assert(got == want, "IsValidHostname disagrees with ValidateHostname")
	if got {
		verifrt.Cover("accepted")
	} else {
		verifrt.Cover("rejected")
	}
}

func c02IsHex(c byte) bool {
	return c >= '0' && c <= '9' || c >= 'a' && c <= 'f' || c >= 'A' && c <= 'F'
}

// c02HexField appends a hex field of w arbitrary hex digits.
func c02HexField(b []byte, w int) []byte {
	for i := 0; i < w; i++ {
		c := verifrt.Byte()
		if verifrt.Thorough() {
			verifrt.Assume(c02IsHex(c))
		} else {
			// quick: decimal digits only (the reference parser forks per
			// hex-digit class, 3^fields paths otherwise)
			verifrt.Assume(c >= '0' && c <= '9')
		}
		b = append(b, c)
	}

	return b
}

// c02Octet appends a decimal octet of w arbitrary digits.
func c02Octet(b []byte, w int) []byte {
	for i := 0; i < w; i++ {
		c := verifrt.Byte()
		verifrt.Assume(c >= '0' && c <= '9')
		b = append(b, c)
	}

	return b
}

// c02V6Shape builds an IPv6-shaped text: nf hex fields, an optional "::" at
// any gap, an optional dotted-quad tail and an optional zone.  All digits are
// symbolic; the field count logic of both parsers is exercised for every
// count 0..9.
func c02V6Shape() (s string, nf int, hasEll, hasTail bool) {
	nf = verifrt.Len(9)
	ell := verifrt.Choice(nf + 2) // 0: none; g+1: "::" at gap g (0 = leading, nf = trailing)
	hasTail = verifrt.Bool2()
	wide := -1
	width := 1
	if verifrt.Thorough() {
		wide = verifrt.Choice(nf+1) - 1 // one field may be 2..5 digits wide
		if wide >= 0 {
			width = 2 + verifrt.Choice(4)
		}
	}
	var b []byte
	for i := 0; i < nf; i++ {
		switch {
		case ell == i+1:
			b = append(b, ':', ':')
		case i > 0:
			b = append(b, ':')
		}
		w := 1
		if i == wide {
			w = width
		}
		if i == wide || i == 0 {
			b = c02HexField(b, w)
		} else {
			// decimal digits in the remaining fields (every hex-digit class
			// in every field is 3^fields paths in the reference parser)
			b = c02Octet(b, w)
		}
	}
	if hasTail {
		switch {
		case ell == nf+1:
			b = append(b, ':', ':')
		case nf > 0:
			b = append(b, ':')
		}
		ow := 1
		if verifrt.Thorough() {
			ow = 1 + verifrt.Choice(3)
		}
		b = c02Octet(b, ow)
		for k := 0; k < 3; k++ {
			b = append(b, '.')
			b = c02Octet(b, 1)
		}
	} else if ell == nf+1 {
		b = append(b, ':', ':')
	}
	if verifrt.Bool2() {
		b = append(b, '%')
		b = append(b, verifrt.Byte())
	}

	return string(b), nf, ell != 0, hasTail
}

// VerifC02IPv6Shapes: the shape family in which every field count, ellipsis
// position and IPv4 tail combination occurs (strings up to ~35 bytes).
func VerifC02IPv6Shapes() {
	s, _, _, _ := c02V6Shape()
	got := IsValidIPString(s)
	want := c02RefAddr(s)
	verifrt.ObserveString("s", s)
	verifrt.ObserveBool("got", got)
	verifrt.Assert(got == want, "IsValidIPString disagrees with netip.ParseAddr on an IPv6-shaped text")
	if got {
		verifrt.Cover("accepted")
	} else {
		verifrt.Cover("rejected")
	}
}

// VerifC02IPPortShapes: bracketed and unbracketed hosts with 1..6 digit
// ports around the 65535 boundary.
func VerifC02IPPortShapes() {
	var b []byte
	switch verifrt.Choice(3) {
	case 0: // [v6]:port with a short free-form inside
		b = append(b, '[')
		b = append(b, verifrt.Bytes(verifrt.Len(4))...)
		b = append(b, ']', ':')
	case 1: // d.d.d.d:port
		for k := 0; k < 4; k++ {
			if k > 0 {
				b = append(b, '.')
			}
			b = c02Octet(b, 1)
		}
		b = append(b, ':')
	default: // [h:h::%z]:port
		b = append(b, '[')
		b = c02HexField(b, 1)
		b = append(b, ':', ':')
		b = c02HexField(b, 1)
		if verifrt.Bool2() {
			b = append(b, '%')
			b = append(b, verifrt.Bytes(verifrt.Len(2))...)
		}
		b = append(b, ']', ':')
	}
	// port: a concrete prefix around the interesting boundaries followed by
	// up to two arbitrary bytes
	b = append(b, [...]string{"", "0", "655", "6553", "65535", "9999"}[verifrt.Choice(6)]...)
	b = append(b, verifrt.Bytes(verifrt.Len(2))...)
	s := string(b)
	got := IsValidIPPortString(s)
	want := c02RefAddrPort(s)
	verifrt.ObserveString("s", s)
	verifrt.ObserveBool("got", got)
	verifrt.Assert(got == want, "IsValidIPPortString disagrees with netip.ParseAddrPort on an addr:port-shaped text")
	if got {
		verifrt.Cover("accepted")
	} else {
		verifrt.Cover("rejected")
	}
}

// c02Label appends a label of n bytes from the hostname alphabet plus, at one
// chosen position, an arbitrary ASCII byte.
func c02Label(b []byte, n int, free int) []byte {
	for i := 0; i < n; i++ {
		c := verifrt.Byte()
		// 'x' is excluded so that no label can start with "xn--"
		if i == free {
			verifrt.Assume(c < 0x80 && c != '.' && c != 'x')
		} else {
			verifrt.Assume((c >= 'a' && c <= 'z' || c >= '0' && c <= '9' || c == '-') && c != 'x')
		}
		b = append(b, c)
	}

	return b
}

// VerifC02HostnameBoundaries: label lengths around 63 and total lengths
// around 253, through the real idna.ToASCII.
func VerifC02HostnameBoundaries() {
	var b []byte
	switch verifrt.Choice(2) {
	case 0: // one label of length 1, 62, 63, 64 followed by a TLD
		n := [...]int{1, 62, 63, 64}[verifrt.Choice(4)]
		free := [...]int{-1, 0, n / 2, n - 1}[verifrt.Choice(4)]
		b = c02Label(b, n, free)
		b = append(b, '.')
		b = c02Label(b, 2, verifrt.Choice(3)-1)
	default: // total length 252, 253, 254 from 63-byte labels
		total := 252 + verifrt.Choice(3)
		for len(b)+64 <= total-1 {
			b = c02Label(b, 63, -1)
			b = append(b, '.')
		}
		b = c02Label(b, total-len(b), -1)
	}
	s := string(b)
	got := IsValidHostname(s)
	want := ValidateHostname(s) == nil
	verifrt.ObserveBool("got", got)
	verifrt.Assert(got == want, "IsValidHostname disagrees with ValidateHostname at a length boundary")
	if got {
		verifrt.Cover("accepted")
	} else {
		verifrt.Cover("rejected")
	}
}

// VerifC02LongPorts: "1.2.3.4:" / "[::1]:" followed by a decimal port that is
// either 1..7 (thorough: 1..10) arbitrary digits, or a member of the
// accumulator-boundary family: 0..3 leading zeros, the leading decimal digits
// of 2^16, 2^31, 2^32, 2^63 or 2^64, and five arbitrary digits in place of the
// last five (so every value within 10^5 of these powers of two, where a 16-,
// 32- or 64-bit accumulator wraps).  The real strconv.ParseUint is the
// reference.
func VerifC02LongPorts() {
	var b []byte
	if verifrt.Bool2() {
		b = append(b, "1.2.3.4:"...)
	} else {
		b = append(b, "[::1]:"...)
	}
	n := 0
	if verifrt.Bool2() {
		max := 7
		if verifrt.Thorough() {
			max = 10
		}
		n = 1 + verifrt.Len(max-1)
	} else {
		for z := verifrt.Len(3); z > 0; z-- {
			b = append(b, '0')
		}
		// 65536, 2147483648, 4294967296, 9223372036854775808,
		// 18446744073709551616 without their last five digits
		b = append(b, [...]string{"", "21474", "42949", "92233720368547", "184467440737095"}[verifrt.Choice(5)]...)
		n = 5
	}
	for i := 0; i < n; i++ {
		c := verifrt.Byte()
		verifrt.Assume(c >= '0' && c <= '9')
		b = append(b, c)
	}
	s := string(b)
	got := IsValidIPPortString(s)
	want := c02RefAddrPort(s)
	verifrt.ObserveString("s", s)
	verifrt.ObserveBool("got", got)
	verifrt.Assert(got == want, "IsValidIPPortString disagrees with netip.ParseAddrPort on a long decimal port")
	if got {
		verifrt.Cover("accepted")
	} else {
		verifrt.Cover("rejected")
	}
}

// VerifC02HostnameIDN: internationalised names whose raw and punycode lengths
// lie on opposite sides of the 253-byte limit (both directions), with one
// arbitrary ASCII byte in the final label: the two twins must still agree.
func VerifC02HostnameIDN() {
	var s string
	switch verifrt.Choice(2) {
	case 0:
		// k two-byte labels: 3k raw bytes, 8k punycode bytes
		k := 29 + verifrt.Choice(4)
		for i := 0; i < k; i++ {
			s += "я."
		}
	default:
		// k labels of 40 two-byte letters: 81k raw bytes, far fewer in punycode
		k := 3 + verifrt.Choice(3)
		for i := 0; i < k; i++ {
			for j := 0; j < 40; j++ {
				s += "а"
			}
			s += "."
		}
	}
	c := verifrt.Byte()
	verifrt.Assume(c < 0x80 && c != '.' && c != 'x')
	s += "c" + string([]byte{c})
	got := IsValidHostname(s)
	want := ValidateHostname(s) == nil
	verifrt.ObserveBool("got", got)
	verifrt.Assert(got == want, "IsValidHostname disagrees with ValidateHostname on an internationalised name")
	if got {
		verifrt.Cover("accepted")
	} else {
		verifrt.Cover("rejected")
	}
}
