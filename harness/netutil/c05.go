//go:build verif

package netutil

import (
	"net/netip"

	"github.com/AdguardTeam/golibs/internal/verifrt"
)

// ---- independent reference decoder (DESIGN.md appendix A) ----

type c05Pfx struct {
	ok   bool
	v6   bool
	bits int
	ip   [16]byte
}

func c05Lower(s string) string {
	b := []byte(s)
	for i, c := range b {
		nc := c
		if c >= 'A' && c <= 'Z' {
			nc = c + 32
		}
		b[i] = nc
	}

	return string(b)
}

// c05Labels splits s at dots.
func c05Labels(s string) (out []string) {
	lo := 0
	for i := 0; i <= len(s); i++ {
		if i == len(s) || s[i] == '.' {
			out = append(out, s[lo:i])
			lo = i + 1
		}
	}

	return out
}

// c05Octet: 1-3 decimal digits, value <= 255, no leading zero unless "0".
func c05Octet(l string) (v byte, ok bool) {
	if len(l) < 1 || len(l) > 3 {
		return 0, false
	}
	n := 0
	for i := 0; i < len(l); i++ {
		if l[i] < '0' || l[i] > '9' {
			return 0, false
		}
		n = n*10 + int(l[i]-'0')
	}
	if len(l) > 1 && l[0] == '0' {
		return 0, false
	}
	if n > 255 {
		return 0, false
	}

	return byte(n), true
}

func c05Hex(c byte) (v byte, ok bool) {
	switch {
	case c >= '0' && c <= '9':
		return c - '0', true
	case c >= 'a' && c <= 'f':
		return c - 'a' + 10, true
	}

	return 0, false
}

// c05RefPrefix decodes s (at most one trailing dot already removed).
func c05RefPrefix(s string) (r c05Pfx) {
	labels := c05Labels(c05Lower(s))
	n := len(labels)
	if n < 2 || labels[n-1] != "arpa" {
		return r
	}
	ls := labels[:n-2]
	switch labels[n-2] {
	case "in-addr":
		if len(ls) > 4 {
			return r
		}
		for i := range ls {
			v, ok := c05Octet(ls[len(ls)-1-i])
			if !ok {
				return c05Pfx{}
			}
			r.ip[i] = v
		}
		r.ok, r.bits = true, 8*len(ls)
	case "ip6":
		if len(ls) > 32 {
			return r
		}
		for i := range ls {
			l := ls[len(ls)-1-i]
			if len(l) != 1 {
				return c05Pfx{}
			}
			v, ok := c05Hex(l[0])
			if !ok {
				return c05Pfx{}
			}
			if i%2 == 0 {
				r.ip[i/2] |= v << 4
			} else {
				r.ip[i/2] |= v
			}
		}
		r.ok, r.v6, r.bits = true, true, 4*len(ls)
	}

	return r
}

func c05TrimDot(s string) string {
	if len(s) > 0 && s[len(s)-1] == '.' {
		return s[:len(s)-1]
	}

	return s
}

// c05RefExtract: valid domain name having a decodable label-aligned suffix;
// the longest such suffix wins.
func c05RefExtract(d string) c05Pfx {
	d = c05TrimDot(d)
	if ValidateDomainName(d) != nil {
		return c05Pfx{}
	}
	for {
		if r := c05RefPrefix(d); r.ok {
			return r
		}
		i := 0
		for i < len(d) && d[i] != '.' {
			i++
		}
		if i >= len(d) {
			return c05Pfx{}
		}
		d = d[i+1:]
	}
}

// c05Compare asserts that the implementation's result equals the reference.
func c05Compare(p netip.Prefix, err error, want c05Pfx, what string) {
	verifrt.ObserveBool("accepted", err == nil)
	verifrt.Assert((err == nil) == want.ok, what+": acceptance differs from the reference decoder")
	if err != nil || !want.ok {
		if err != nil {
			_, isAddrErr := err.(*AddrError)
			verifrt.Assert(isAddrErr, what+": error is not an *AddrError")
		}
		verifrt.Cover("rejected")

		return
	}
	verifrt.Assert(p.IsValid(), what+": accepted but the prefix is invalid")
	verifrt.Assert(p.Bits() == want.bits, what+": prefix length differs from the reference decoder")
	a := p.Addr()
	verifrt.Assert(a.Is4() == !want.v6, what+": address family differs from the reference decoder")
	if a.Is4() {
		b := a.As4()
		for i := range b {
			verifrt.Assert(b[i] == want.ip[i], what+": address bits differ from the reference decoder")
		}
	} else {
		b := a.As16()
		for i := range b {
			verifrt.Assert(b[i] == want.ip[i], what+": address bits differ from the reference decoder")
		}
	}
	verifrt.Cover("accepted")
}

// c05Root appends the root with symbolic case; the joining byte before it is
// arbitrary ASCII when join is true (so "xin-addr.arpa" is in the family).
func c05Root(b []byte, root string, needJoin bool) []byte {
	// with labels in front the joining byte is arbitrary; without any, the
	// root may still be preceded by one arbitrary byte ("xip6.arpa")
	if needJoin || verifrt.Bool2() {
		j := verifrt.Byte()
		verifrt.Assume(j < 0x80)
		b = append(b, j)
	}
	for i := 0; i < len(root); i++ {
		c := root[i]
		if c >= 'a' && c <= 'z' {
			up := verifrt.Bool()
			nc := c
			if up {
				nc = c - 32
			}
			c = nc
		}
		b = append(b, c)
	}
	// no, one (the optional one) or two trailing dots
	for d := verifrt.Choice(3); d > 0; d-- {
		b = append(b, '.')
	}

	return b
}

// c05LabelsV4 appends k labels joined by dots: one of them 1..maxw arbitrary
// ASCII bytes wide, the others one arbitrary ASCII byte.
func c05LabelsV4(b []byte, k, maxw int) []byte {
	// one label (any position) of width 1..maxw, the others one byte (every
	// label wide at once does not finish within the thorough budget)
	wide := verifrt.Choice(k + 1)
	for i := 0; i < k; i++ {
		if i > 0 {
			b = append(b, '.')
		}
		w := 1
		if wide < 0 || i == wide {
			w = 1 + verifrt.Choice(maxw)
		}
		for j := 0; j < w; j++ {
			c := verifrt.Byte()
			if k > 2 {
				// longer sequences: bytes do not re-split the name (all label
				// structures are still enumerated by k and the widths)
				verifrt.Assume(c < 0x80 && c != 'x' && c != '.')
			} else {
				verifrt.Assume(c < 0x80 && c != 'x')
			}
			b = append(b, c)
		}
	}

	return b
}

func c05V4Name() string {
	maxk, maxw := 5, 3
	if verifrt.Thorough() {
		maxk, maxw = 6, 4
	}
	k := verifrt.Len(maxk)
	var b []byte
	b = c05LabelsV4(b, k, maxw)
	b = c05Root(b, "in-addr.arpa", k > 0)

	return string(b)
}

// c05V6Name: k single-byte labels (one of them may be 2..3 bytes wide).
func c05V6Name(maxk int) string {
	k := verifrt.Len(maxk)
	wide := verifrt.Choice(k+1) - 1
	var b []byte
	for i := 0; i < k; i++ {
		if i > 0 {
			b = append(b, '.')
		}
		w := 1
		if i == wide {
			w = 2 + verifrt.Choice(2)
		}
		for j := 0; j < w; j++ {
			c := verifrt.Byte()
			if k > 4 {
				verifrt.Assume(c < 0x80 && c != 'x' && c != '.')
			} else {
				verifrt.Assume(c < 0x80 && c != 'x')
			}
			b = append(b, c)
		}
	}
	b = c05Root(b, "ip6.arpa", k > 0)

	return string(b)
}

// VerifC05PrefixV4: PrefixFromReversedAddr on in-addr.arpa label sequences.
func VerifC05PrefixV4() {
	s := c05V4Name()
	p, err := PrefixFromReversedAddr(s)
	c05Compare(p, err, c05RefPrefix(c05TrimDot(s)), "PrefixFromReversedAddr")
}

// VerifC05PrefixV6: PrefixFromReversedAddr on ip6.arpa label sequences.
func VerifC05PrefixV6() {
	maxk := 8
	if verifrt.Thorough() {
		maxk = 34
	}
	s := c05V6Name(maxk)
	p, err := PrefixFromReversedAddr(s)
	c05Compare(p, err, c05RefPrefix(c05TrimDot(s)), "PrefixFromReversedAddr")
}

// VerifC05PrefixFree: every ASCII string up to the bound.
func VerifC05PrefixFree() {
	max := 6
	if verifrt.Thorough() {
		max = 8
	}
	s := verifrt.String(verifrt.Len(max))
	verifAssumeASCII(s)
	verifAssumeNoACE(s)
	p, err := PrefixFromReversedAddr(s)
	c05Compare(p, err, c05RefPrefix(c05TrimDot(s)), "PrefixFromReversedAddr")
}

// c05Lead prepends 0..2 arbitrary leading labels (1..2 bytes each).
func c05Lead() []byte {
	var b []byte
	maxk := 1
	if verifrt.Thorough() {
		maxk = 2
	}
	k := verifrt.Len(maxk)
	for i := 0; i < k; i++ {
		w := 1 + verifrt.Choice(2)
		for j := 0; j < w; j++ {
			c := verifrt.Byte()
			verifrt.Assume(c < 0x80 && c != 'x' && c != '.')
			b = append(b, c)
		}
		b = append(b, '.')
	}

	return b
}

// VerifC05ExtractV4: ExtractReversedAddr on names with leading labels.
func VerifC05ExtractV4() {
	s := string(c05Lead()) + c05V4Name()
	p, err := ExtractReversedAddr(s)
	c05Compare(p, err, c05RefExtract(s), "ExtractReversedAddr")
}

// VerifC05ExtractV6: ExtractReversedAddr on names with leading labels.
func VerifC05ExtractV6() {
	// (the lengths around a full address are VerifC05ExtractV6Full's)
	maxk := 8
	if verifrt.Thorough() {
		maxk = 12
	}
	s := string(c05Lead()) + c05V6Name(maxk)
	p, err := ExtractReversedAddr(s)
	c05Compare(p, err, c05RefExtract(s), "ExtractReversedAddr")
}

// VerifC05ExtractFree: X ++ root for every ASCII X up to the bound, the joint
// included in X (so non-label-aligned roots are inside).
func VerifC05ExtractFree() {
	max := 4
	if verifrt.Thorough() {
		max = 6
	}
	x := verifrt.String(verifrt.Len(max))
	verifAssumeASCII(x)
	verifAssumeNoACE(x)
	root := [...]string{"in-addr.arpa", "ip6.arpa"}[verifrt.Choice(2)]
	s := x + root
	p, err := ExtractReversedAddr(s)
	c05Compare(p, err, c05RefExtract(s), "ExtractReversedAddr")
}

// c05V6Full: 30..33 labels in front of ip6.arpa (so the 72-byte full-address
// form and its neighbours); one label (any position) is 1..3 arbitrary ASCII
// bytes wide and its two neighbour labels are one arbitrary ASCII byte each;
// all other labels are fixed hex digits.
func c05V6Full() string {
	k := 30 + verifrt.Choice(4)
	wide := verifrt.Choice(k)
	var b []byte
	for i := 0; i < k; i++ {
		if i > 0 {
			b = append(b, '.')
		}
		switch {
		case i == wide:
			w := 1 + verifrt.Choice(3)
			for j := 0; j < w; j++ {
				c := verifrt.Byte()
				verifrt.Assume(c < 0x80 && c != 'x' && c != '.')
				b = append(b, c)
			}
		case i == wide-1 || i == wide+1:
			c := verifrt.Byte()
			verifrt.Assume(c < 0x80 && c != '.')
			b = append(b, c)
		default:
			b = append(b, "0123456789abcdefABCDEF"[(i*7)%22])
		}
	}
	b = c05Root(b, "ip6.arpa", true)

	return string(b)
}

// VerifC05PrefixV6Full: PrefixFromReversedAddr around the full-address length.
func VerifC05PrefixV6Full() {
	s := c05V6Full()
	p, err := PrefixFromReversedAddr(s)
	c05Compare(p, err, c05RefPrefix(c05TrimDot(s)), "PrefixFromReversedAddr")
}

// VerifC05ExtractV6Full: ExtractReversedAddr around the full-address length.
func VerifC05ExtractV6Full() {
	s := c05V6Full()
	p, err := ExtractReversedAddr(s)
	c05Compare(p, err, c05RefExtract(s), "ExtractReversedAddr")
}

// VerifC05UnicodeRoot: label sequences in front of a root in which one byte is
// replaced by an arbitrary two-byte UTF-8 rune (thorough: or a three-byte
// rune): no Unicode case mapping may turn such a name into a reversed one.
func VerifC05UnicodeRoot() {
	root := [...]string{"in-addr.arpa", "ip6.arpa"}[verifrt.Choice(2)]
	var b []byte
	for k := verifrt.Len(2); k > 0; k-- {
		d := verifrt.Byte()
		verifrt.Assume(d >= '0' && d <= '9')
		b = append(b, d, '.')
	}
	pos := verifrt.Choice(len(root))
	three := false
	if verifrt.Thorough() {
		three = verifrt.Bool2()
	}
	for i := 0; i < len(root); i++ {
		if i != pos {
			b = append(b, root[i])

			continue
		}
		if three {
			c0, c1, c2 := verifrt.Byte(), verifrt.Byte(), verifrt.Byte()
			verifrt.Assume(c0 >= 0xe1 && c0 <= 0xec && c1 >= 0x80 && c1 <= 0xbf && c2 >= 0x80 && c2 <= 0xbf)
			b = append(b, c0, c1, c2)
		} else {
			c0, c1 := verifrt.Byte(), verifrt.Byte()
			verifrt.Assume(c0 >= 0xc2 && c0 <= 0xdf && c1 >= 0x80 && c1 <= 0xbf)
			b = append(b, c0, c1)
		}
	}
	s := string(b)
	_, err := PrefixFromReversedAddr(s)
	verifrt.ObserveBool("prefix-ok", err == nil)
	verifrt.Assert(err != nil, "PrefixFromReversedAddr accepted a name with a non-ASCII rune in the ARPA root")
	_, err = ExtractReversedAddr(s)
	verifrt.ObserveBool("extract-ok", err == nil)
	verifrt.Assert(err != nil, "ExtractReversedAddr found a reversed address in a name with a non-ASCII rune in the ARPA root")
	verifrt.Cover("rejected")
}
