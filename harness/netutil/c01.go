//go:build verif

package netutil

import (
	"net"
	"net/netip"
	"net/url"

	"github.com/AdguardTeam/golibs/internal/verifrt"
)

// The C01 harnesses have no oracle: every run-time panic site, explicit
// panic and unwinding failure inside the called functions is an assertion of
// the executor.  They only need to drive each exported function with
// arbitrary arguments that meet its documented preconditions.

func c01Len() int {
	if verifrt.Thorough() {
		return 7
	}

	return 5
}

// VerifC01Bytes: functions that take arbitrary byte strings (no idna).
func VerifC01Bytes() {
	s := verifrt.String(verifrt.Len(c01Len()))
	switch verifrt.Choice(19) {
	case 0:
		IsValidIPString(s)
	case 1:
		IsValidIPPortString(s)
	case 2:
		IsValidHostnameLabel(s)
	case 3:
		_ = ValidateHostnameLabel(s)
	case 4:
		_ = ValidateDomainNameLabel(s)
	case 5:
		_ = ValidateServiceNameLabel(s)
	case 6:
		_ = ValidateTLDLabel(s)
	case 7:
		_, _ = ParseIP(s)
	case 8:
		_, _ = ParseIPv4(s)
	case 9:
		_, _ = ParseHostPort(s)
	case 10:
		_, _ = SplitHost(s)
	case 11:
		_, _, _ = SplitHostPort(s)
	case 12:
		_ = Subdomains(s)
	case 13:
		_ = JoinHostPort(s, verifrt.Uint16())
	case 14:
		hp := &HostPort{}
		_ = hp.UnmarshalText([]byte(s))
	case 15:
		p := &Prefix{}
		_ = p.UnmarshalText([]byte(s))
	case 16:
		hp := HostPort{Host: s, Port: verifrt.Uint16()}
		_ = hp.String()
		_, _ = hp.MarshalText()
		_ = hp.Clone()
	case 17:
		_ = (&AddrError{Addr: s, Kind: AddrKindIP}).Error()
		_ = (&LabelError{Label: s, Kind: LabelKindHost}).Error()
	default:
		top := verifrt.String(verifrt.Len(3))
		IsSubdomain(s, top)
		IsImmediateSubdomain(s, top)
	}
	verifrt.Cover("returned")
}

// VerifC01Names: functions that go through idna.ToASCII, on ASCII names.
func VerifC01Names() {
	s := verifrt.String(verifrt.Len(c01Len()))
	verifAssumeASCII(s)
	verifAssumeNoACE(s)
	switch verifrt.Choice(7) {
	case 0:
		_ = ValidateHostname(s)
	case 1:
		_ = ValidateDomainName(s)
	case 2:
		_ = ValidateSRVDomainName(s)
	case 3:
		IsValidHostname(s)
	case 4:
		_, _ = IPFromReversedAddr(s)
	case 5:
		_, _ = PrefixFromReversedAddr(s)
	default:
		_, _ = ExtractReversedAddr(s)
	}
	verifrt.Cover("returned")
}

// VerifC01ARPA: the three ARPA decoders on X ++ root (joint inside X).
func VerifC01ARPA() {
	x := verifrt.String(verifrt.Len(c01Len()))
	verifAssumeASCII(x)
	verifAssumeNoACE(x)
	root := [...]string{"in-addr.arpa", "ip6.arpa", "IN-ADDR.ARPA.", "Ip6.Arpa."}[verifrt.Choice(4)]
	s := x + root
	switch verifrt.Choice(3) {
	case 0:
		_, _ = IPFromReversedAddr(s)
	case 1:
		_, _ = PrefixFromReversedAddr(s)
	default:
		_, _ = ExtractReversedAddr(s)
	}
	verifrt.Cover("returned")
}

// VerifC01ARPAText: address-shaped texts (IPv4 dotted quads with 1..3-digit
// octets, IPv6 texts with "::", hex fields and a dotted-quad tail, zones) in
// front of the roots: what netip.ParseAddr accepts or half-accepts must not
// make the decoders panic.
func VerifC01ARPAText() {
	var b []byte
	if verifrt.Bool2() {
		b = append(b, ':', ':')
	}
	for nf := verifrt.Len(2); nf > 0; nf-- {
		for w := 1 + verifrt.Choice(2); w > 0; w-- {
			c := verifrt.Byte()
			verifrt.Assume(c >= '0' && c <= '9' || c >= 'a' && c <= 'f' || c >= 'A' && c <= 'F')
			b = append(b, c)
		}
		b = append(b, ':')
		if verifrt.Bool2() {
			b = append(b, ':')
		}
	}
	for k, n := 0, verifrt.Len(4); k < n; k++ {
		if k > 0 {
			b = append(b, '.')
		}
		for w := 1 + verifrt.Choice(2); w > 0; w-- {
			d := verifrt.Byte()
			verifrt.Assume(d >= '0' && d <= '9')
			b = append(b, d)
		}
	}
	if verifrt.Bool2() {
		b = append(b, '%')
		z := verifrt.Byte()
		verifrt.Assume(z < 0x80 && z != '.')
		b = append(b, z)
	}
	b = append(b, '.')
	root := [...]string{"in-addr.arpa", "ip6.arpa", "IN-ADDR.ARPA.", "Ip6.Arpa."}[verifrt.Choice(4)]
	s := string(b) + root
	switch verifrt.Choice(3) {
	case 0:
		_, _ = IPFromReversedAddr(s)
	case 1:
		_, _ = PrefixFromReversedAddr(s)
	default:
		_, _ = ExtractReversedAddr(s)
	}
	verifrt.Cover("returned")
}

// VerifC01Nibbles: ip6.arpa names of 0..34 one-byte labels with one label
// 2..3 bytes wide at any position (the label scan of ExtractReversedAddr).
func VerifC01Nibbles() {
	maxk := 10
	if verifrt.Thorough() {
		maxk = 34
	}
	k := verifrt.Len(maxk)
	wide := verifrt.Choice(k+1) - 1
	var b []byte
	for i := 0; i < k; i++ {
		w := 1
		if i == wide {
			w = 2 + verifrt.Choice(2)
		}
		for j := 0; j < w; j++ {
			c := verifrt.Byte()
			verifrt.Assume(c < 0x80 && c != 'x' && c != '.')
			b = append(b, c)
		}
		b = append(b, '.')
	}
	s := string(b) + "ip6.arpa"
	switch verifrt.Choice(3) {
	case 0:
		_, _ = IPFromReversedAddr(s)
	case 1:
		_, _ = PrefixFromReversedAddr(s)
	default:
		_, _ = ExtractReversedAddr(s)
	}
	verifrt.Cover("returned")
}

// c01IP returns a net.IP of any interesting length with arbitrary bytes.
func c01IP() net.IP {
	k := verifrt.Choice(9)
	if k == 0 {
		return nil
	}
	n := [...]int{0, 0, 1, 3, 4, 5, 15, 16, 17}[k]

	return net.IP(verifrt.Bytes(n))
}

func c01Mask() net.IPMask {
	k := verifrt.Choice(6)
	if k == 0 {
		return nil
	}
	n := [...]int{0, 0, 3, 4, 16, 17}[k]

	return net.IPMask(verifrt.Bytes(n))
}

func c01Fam() AddrFamily {
	// "fam must be either AddrFamilyIPv4 or AddrFamilyIPv6"
	if verifrt.Bool2() {
		return AddrFamilyIPv4
	}

	return AddrFamilyIPv6
}

// VerifC01IPs: functions taking net.IP / net.IPNet / net.HardwareAddr / net.Addr.
func VerifC01IPs() {
	switch verifrt.Choice(10) {
	case 0:
		_, _ = IPToReversedAddr(c01IP())
	case 1:
		_, _ = IPToAddr(c01IP(), c01Fam())
	case 2:
		_, _ = IPToAddrNoMapped(c01IP())
	case 3:
		_ = ValidateIP(c01IP())
	case 4:
		var n *net.IPNet
		if verifrt.Bool2() {
			n = &net.IPNet{IP: c01IP(), Mask: c01Mask()}
		}
		_, _ = IPNetToPrefix(n, c01Fam())
	case 5:
		var n *net.IPNet
		if verifrt.Bool2() {
			n = &net.IPNet{IP: c01IP(), Mask: c01Mask()}
		}
		_, _ = IPNetToPrefixNoMapped(n)
	case 6:
		_ = CloneIPs([]net.IP{c01IP(), c01IP()})
		_ = CloneIPs(nil)
	case 7:
		_ = ValidateMAC(net.HardwareAddr(verifrt.Bytes([...]int{0, 1, 6, 7, 8, 20, 21}[verifrt.Choice(7)])))
	default:
		var a net.Addr
		switch verifrt.Choice(5) {
		case 0:
			a = nil
		case 1:
			a = &net.TCPAddr{IP: c01IP(), Port: verifrt.Int(), Zone: verifrt.String(verifrt.Len(1))}
		case 2:
			a = &net.UDPAddr{IP: c01IP(), Port: verifrt.Int(), Zone: verifrt.String(verifrt.Len(1))}
		case 3:
			a = &net.IPAddr{IP: c01IP()}
		default:
			a = &net.UnixAddr{Name: verifrt.String(verifrt.Len(2)), Net: "unix"}
		}
		IPAndPortFromAddr(a)
		NetAddrToAddrPort(a)
	}
	verifrt.Cover("returned")
}

// c01Addr returns an arbitrary netip.Addr of every kind.
func c01Addr() netip.Addr {
	switch verifrt.Choice(5) {
	case 0:
		return netip.Addr{}
	case 1:
		var b [4]byte
		copy(b[:], verifrt.Bytes(4))

		return netip.AddrFrom4(b)
	case 2:
		var b [16]byte
		copy(b[:], verifrt.Bytes(16))

		return netip.AddrFrom16(b)
	case 3:
		var b [4]byte
		copy(b[:], verifrt.Bytes(4))

		return netip.AddrFrom16(netip.AddrFrom4(b).As16())
	default:
		var b [16]byte
		copy(b[:], verifrt.Bytes(16))

		return netip.AddrFrom16(b).WithZone(verifrt.String(1 + verifrt.Len(1)))
	}
}

// VerifC01Addrs: functions taking netip values, runes and small integers.
func VerifC01Addrs() {
	switch verifrt.Choice(8) {
	case 0:
		IsLocallyServed(c01Addr())
	case 1:
		IsSpecialPurpose(c01Addr())
	case 2:
		PreferIPv4(c01Addr(), c01Addr())
	case 3:
		PreferIPv6(c01Addr(), c01Addr())
	case 4:
		a := c01Addr()
		bits := int(verifrt.Byte())
		set := SliceSubnetSet{netip.PrefixFrom(c01Addr(), bits), netip.Prefix{}}
		set.Contains(a)
		SubnetSetFunc(IsLocallyServed).Contains(a)
		_ = UnembedPrefixes([]Prefix{{Prefix: netip.PrefixFrom(a, bits)}, {}})
	case 5:
		r := rune(verifrt.Int32())
		IsValidHostInnerRune(r)
		IsValidHostOuterRune(r)
	case 6:
		_ = ZeroPrefix(c01Fam())
		f := AddrFamily(verifrt.Uint16())
		_ = f.String()
		_ = AddrFamilyFromRRType(verifrt.Uint16())
	default:
		_ = CloneURL(nil)
		u := &url.URL{Scheme: verifrt.String(verifrt.Len(2)), Host: verifrt.String(verifrt.Len(2))}
		c := CloneURL(u)
		verifrt.Assert(c != u && c.Host == u.Host, "CloneURL does not copy")
		hps := CloneHostPorts([]*HostPort{nil, {Host: verifrt.String(verifrt.Len(2)), Port: verifrt.Uint16()}})
		_ = hps
		_ = CloneHostPorts(nil)
	}
	verifrt.Cover("returned")
}
