//go:build verif

package netutil

import (
	"net/netip"

	"github.com/AdguardTeam/golibs/internal/verifrt"
)

// The reference predicates c06RefLocal4/16 and c06RefSpecial4/16 are
// generated at run time from the doc comments of IsLocallyServed and
// IsSpecialPurpose (see gosym's C06 generator).

// c06In reports whether the leading bits of ip equal those of net.
func c06In(ip, net []byte, bits int) bool {
	full := bits / 8
	for i := 0; i < full; i++ {
		if ip[i] != net[i] {
			return false
		}
	}
	if r := bits % 8; r != 0 {
		m := byte(0xff) << (8 - r)

		return ip[full]&m == net[full]&m
	}

	return true
}

// c06Addr builds an arbitrary netip.Addr of the chosen kind.
func c06Addr(kind int) (a netip.Addr, is4, valid bool, b4 [4]byte, b16 [16]byte) {
	switch kind {
	case 0:
		return netip.Addr{}, false, false, b4, b16
	case 1:
		copy(b4[:], verifrt.Bytes(4))

		return netip.AddrFrom4(b4), true, true, b4, b16
	case 2:
		copy(b16[:], verifrt.Bytes(16))

		return netip.AddrFrom16(b16), false, true, b4, b16
	default:
		copy(b16[:], verifrt.Bytes(16))
		zone := verifrt.String(1 + verifrt.Choice(2))

		return netip.AddrFrom16(b16).WithZone(zone), false, true, b4, b16
	}
}

// VerifC06Local: IsLocallyServed equals its documented list for every
// address of every kind.
func VerifC06Local() {
	kind := verifrt.Choice(4)
	a, is4, valid, b4, b16 := c06Addr(kind)
	got := IsLocallyServed(a)
	var want bool
	switch {
	case !valid:
		want = false
	case is4:
		want = c06RefLocal4(b4)
	default:
		want = c06RefLocal16(b16)
	}
	verifrt.ObserveBool("got", got)
	verifrt.Assert(got == want, "IsLocallyServed differs from the networks listed in its documentation")
	switch kind {
	case 0:
		verifrt.Cover("zero-addr")
	case 1:
		verifrt.Cover("ipv4")
	case 2:
		verifrt.Cover("ipv6")
	default:
		verifrt.Cover("ipv6-zoned")
	}
}

// VerifC06Special: IsSpecialPurpose equals its documented list.
func VerifC06Special() {
	kind := verifrt.Choice(4)
	a, is4, valid, b4, b16 := c06Addr(kind)
	got := IsSpecialPurpose(a)
	var want bool
	switch {
	case !valid:
		want = false
	case is4:
		want = c06RefSpecial4(b4)
	default:
		want = c06RefSpecial16(b16)
	}
	verifrt.ObserveBool("got", got)
	verifrt.Assert(got == want, "IsSpecialPurpose differs from the networks listed in its documentation")
	switch kind {
	case 0:
		verifrt.Cover("zero-addr")
	case 1:
		verifrt.Cover("ipv4")
	case 2:
		verifrt.Cover("ipv6")
	default:
		verifrt.Cover("ipv6-zoned")
	}
}
