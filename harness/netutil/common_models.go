//go:build verif

package netutil

import (
	"strconv"
	"strings"

	"github.com/AdguardTeam/golibs/internal/verifrt"
)

// The engine replaces strings.ToLower/ToUpper on all-ASCII input and
// strconv.FormatInt/FormatUint(v, 10) on small non-negative v by byte-wise
// models.  These harnesses run with the models switched off (the real std
// code is executed) and compare it with the model's definition.

// VerifModelToLower: real strings.ToLower/ToUpper == byte-wise ASCII mapping
// for every ASCII string of length <= 4.
func VerifModelToLower() {
	s := verifrt.String(verifrt.Len(4))
	verifAssumeASCII(s)
	lo, up := strings.ToLower(s), strings.ToUpper(s)
	verifrt.Assert(len(lo) == len(s) && len(up) == len(s), "case mapping changed the length of an ASCII string")
	for i := 0; i < len(s) && i < len(lo) && i < len(up); i++ {
		c := s[i]
		wl, wu := c, c
		if c >= 'A' && c <= 'Z' {
			wl = c + 32
		}
		if c >= 'a' && c <= 'z' {
			wu = c - 32
		}
		verifrt.Assert(lo[i] == wl, "strings.ToLower differs from the byte-wise ASCII model")
		verifrt.Assert(up[i] == wu, "strings.ToUpper differs from the byte-wise ASCII model")
	}
	verifrt.Cover("checked")
}

// VerifModelItoa: real strconv.Itoa == digit-wise model for 0..255 and the
// decimal boundaries up to 999999.
func VerifModelItoa() {
	var v int
	switch verifrt.Choice(2) {
	case 0:
		v = int(verifrt.Byte())
	default:
		v = [...]int{9, 10, 99, 100, 999, 1000, 9999, 10000, 65535, 65536, 99999, 100000, 999999}[verifrt.Choice(13)]
	}
	got := strconv.Itoa(v)
	// model: digits most significant first
	var want []byte
	for x := v; ; x /= 10 {
		want = append([]byte{byte('0' + x%10)}, want...)
		if x < 10 {
			break
		}
	}
	verifrt.Assert(got == string(want), "strconv.Itoa differs from the digit-wise model")
	verifrt.Cover("checked")
}
