//go:build verif

package urlutil

import (
	"net/url"

	"github.com/AdguardTeam/golibs/internal/verifrt"
)

func c01URL() *url.URL {
	if verifrt.Bool2() {
		return nil
	}
	u := &url.URL{
		Scheme: verifrt.String([...]int{0, 4}[verifrt.Choice(2)]),
		Host:   verifrt.String(verifrt.Len(1)),
		Path:   verifrt.String(verifrt.Len(1)),
	}
	if verifrt.Bool2() {
		u.User = url.UserPassword(verifrt.String(verifrt.Len(1)), verifrt.String(verifrt.Len(1)))
	}

	return u
}

// VerifC01URL: urlutil functions on arbitrary texts and URL values.
func VerifC01URL() {
	max := 3
	if verifrt.Thorough() {
		max = 4 // (5 does not finish within half an hour)
	}
	switch verifrt.Choice(8) {
	case 0:
		_, _ = Parse(verifrt.String(verifrt.Len(max)))
	case 1:
		u := &URL{}
		_ = u.UnmarshalText(verifrt.Bytes(verifrt.Len(max)))
	case 2:
		// JSON strings and null; other JSON values go through
		// encoding/json's reflection, which is outside the executor's reach
		u := &URL{}
		if verifrt.Bool2() {
			_ = u.UnmarshalJSON([]byte("null"))
			_ = u.UnmarshalJSON(nil)
		} else {
			n := verifrt.Len(max)
			b := append([]byte{'"'}, verifrt.Bytes(n)...)
			if n > 0 || verifrt.Bool2() {
				// (the empty string token also without its closing quote:
				// the one-byte input; longer unterminated tokens end in
				// reflect.TypeOf, which the executor does not reach)
				b = append(b, '"')
			}
			_ = u.UnmarshalJSON(b)
		}
	case 3:
		_ = ValidateFileURL(c01URL())
	case 4:
		_ = ValidateGRPCURL(c01URL())
	case 5:
		_ = ValidateHTTPURL(c01URL())
	case 6:
		s := verifrt.String([...]int{0, 4, 5}[verifrt.Choice(3)])
		IsValidGRPCURLScheme(s)
		IsValidHTTPURLScheme(s)
	default:
		u := c01URL()
		if u != nil { // "u must not be nil"
			_ = RedactUserinfo(u)
			RedactUserinfoInURLError(u, nil)
			RedactUserinfoInURLError(u, &url.Error{Op: "get", URL: "x", Err: ErrEmpty})
			RedactUserinfoInURLError(u, ErrEmpty)
			if u.Scheme == "" && u.Host == "" {
				// URL.String on arbitrary fields is C14/C16's subject; here
				// only with one arbitrary path byte and userinfo
				uu := &URL{URL: *u}
				_, _ = uu.MarshalText()
			}
		}
	}
	verifrt.Cover("returned")
}
