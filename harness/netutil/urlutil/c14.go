//go:build verif

package urlutil

import (
	"encoding/json"
	"net/url"

	"github.com/AdguardTeam/golibs/internal/verifrt"
)

func c14SameURL(a, b *url.URL) bool {
	if (a.User == nil) != (b.User == nil) {
		return false
	}
	if a.User != nil {
		pa, sa := a.User.Password()
		pb, sb := b.User.Password()
		if a.User.Username() != b.User.Username() || pa != pb || sa != sb {
			return false
		}
	}

	return a.Scheme == b.Scheme && a.Opaque == b.Opaque && a.Host == b.Host && a.Path == b.Path &&
		a.RawPath == b.RawPath && a.OmitHost == b.OmitHost && a.ForceQuery == b.ForceQuery &&
		a.RawQuery == b.RawQuery && a.Fragment == b.Fragment && a.RawFragment == b.RawFragment
}

// VerifC14URLText: the text encoding of URL adds nothing to net/url:
// MarshalText is exactly String(), UnmarshalText(b) stores exactly
// url.Parse(string(b)) and rejects the empty text; so the round trip is the
// standard library's.
func VerifC14URLText() {
	// (4 bytes do not finish within the thorough budget)
	max := 3
	raw := verifrt.String(verifrt.Len(max))
	u, err := Parse(raw)
	ref, rerr := url.Parse(raw)
	verifrt.ObserveBool("ok", err == nil)
	if raw == "" {
		verifrt.Assert(err != nil && u == nil, "Parse must reject the empty text")
		var e URL
		verifrt.Assert(e.UnmarshalText(nil) != nil, "UnmarshalText must reject the empty text")
		verifrt.Cover("empty")

		return
	}
	verifrt.Assert((err == nil) == (rerr == nil), "Parse acceptance differs from url.Parse")
	if err != nil || rerr != nil {
		verifrt.Cover("rejected")

		return
	}
	verifrt.Assert(c14SameURL(&u.URL, ref), "Parse result differs from url.Parse")
	text, merr := u.MarshalText()
	verifrt.Assert(merr == nil, "MarshalText failed")
	want := u.String()
	verifrt.Assert(string(text) == want, "MarshalText is not String()")
	// URLs whose text form is empty ("#", "//") cannot be unmarshalled again
	verifrt.Known("C14-url-with-empty-text", len(text) == 0)
	var back URL
	uerr := back.UnmarshalText(text)
	verifrt.Assert(uerr == nil, "the text form of an accepted URL is rejected by UnmarshalText")
	if uerr == nil {
		again, aerr := url.Parse(want)
		verifrt.Assert(aerr == nil && c14SameURL(&back.URL, again), "UnmarshalText result differs from url.Parse of the same text")
		verifrt.Assert(back.String() == want, "text round trip changes String()")
	}
	verifrt.Cover("accepted")
}

// VerifC14URLJSON: encoding/json Marshal -> Unmarshal of an accepted URL gives
// a URL with the same String().  (json.Marshal/Unmarshal are bridged by the
// executor to URL.MarshalText + the real json string quoting with HTML
// escaping, and to the real json string validity check + URL.UnmarshalJSON;
// natively the real encoding/json runs.)
func VerifC14URLJSON() {
	max := 2
	if verifrt.Thorough() {
		max = 3
	}
	raw := verifrt.String(verifrt.Len(max))
	for i := 0; i < len(raw); i++ {
		// valid UTF-8 only: encoding/json replaces invalid bytes by U+FFFD
		verifrt.Assume(raw[i] < 0x80)
	}
	u, err := Parse(raw)
	if err != nil {
		verifrt.Cover("rejected")

		return
	}
	want := u.String()
	verifrt.Known("C14-url-with-empty-text", want == "")
	data, merr := json.Marshal(u)
	verifrt.Assert(merr == nil, "json.Marshal of an accepted URL failed")
	var back URL
	uerr := json.Unmarshal(data, &back)
	verifrt.ObserveString("json", string(data))
	verifrt.Assert(uerr == nil, "json.Unmarshal rejects the JSON form of an accepted URL")
	if uerr == nil {
		verifrt.Assert(back.String() == want, "JSON round trip changes String()")
	}
	verifrt.Cover("accepted")
}
