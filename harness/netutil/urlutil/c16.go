//go:build verif

package urlutil

import (
	"errors"
	"net/url"

	"github.com/AdguardTeam/golibs/internal/verifrt"
)

func c16Str(max int) string { return verifrt.String(verifrt.Len(max)) }

// c16Userinfo returns an arbitrary non-nil userinfo.
func c16Userinfo() *url.Userinfo {
	name := c16Str(2)
	if verifrt.Bool2() {
		return url.UserPassword(name, c16Str(2))
	}

	return url.User(name)
}

// c16Base returns a URL without userinfo: one component (chosen by the
// executor, every component in turn) holds 0..2 arbitrary bytes, the others a
// fixed typical value; the flags are arbitrary.  RedactUserinfo never looks
// at the contents, so this bounds URL.String, not the redaction.
func c16Base() *url.URL {
	u := &url.URL{
		Scheme:     "http",
		Host:       "h",
		Path:       "/p",
		OmitHost:   verifrt.Bool2(),
		ForceQuery: verifrt.Bool2(),
		RawQuery:   "q=1",
		Fragment:   "f",
	}
	free := c16Str(2)
	switch verifrt.Choice(8) {
	case 0:
		u.Scheme = free
	case 1:
		u.Opaque = free
	case 2:
		u.Host = free
	case 3:
		u.Path = free
	case 4:
		u.RawPath = free
	case 5:
		u.RawQuery = free
	case 6:
		u.Fragment = free
	default:
		u.RawFragment = free
	}

	return u
}

func c16SameButUser(a, b *url.URL) bool {
	return a.Scheme == b.Scheme && a.Opaque == b.Opaque && a.Host == b.Host && a.Path == b.Path &&
		a.RawPath == b.RawPath && a.OmitHost == b.OmitHost && a.ForceQuery == b.ForceQuery &&
		a.RawQuery == b.RawQuery && a.Fragment == b.Fragment && a.RawFragment == b.RawFragment
}

// VerifC16Redact: two URLs differing only in their userinfo redact to the
// same URL; only the userinfo changes; inputs untouched.
func VerifC16Redact() {
	base := c16Base()
	u1, u2 := *base, *base
	i1, i2 := c16Userinfo(), c16Userinfo()
	u1.User, u2.User = i1, i2
	snap1 := u1
	r1, r2 := RedactUserinfo(&u1), RedactUserinfo(&u2)
	verifrt.Assert(r1 != &u1 && r2 != &u2, "a URL with userinfo must be copied, not returned")
	verifrt.Assert(u1.User == i1 && c16SameButUser(&u1, &snap1), "RedactUserinfo modified its input")
	verifrt.Assert(c16SameButUser(r1, base) && c16SameButUser(r2, base), "a component other than the userinfo changed")
	verifrt.Assert(r1.User != nil && r2.User != nil, "redacted URL lost its userinfo")
	p1, set1 := r1.User.Password()
	p2, set2 := r2.User.Password()
	verifrt.Assert(r1.User.Username() == r2.User.Username() && p1 == p2 && set1 == set2, "redacted userinfo depends on the credentials")
	verifrt.Assert(r1.User.Username() == "xxxxx" && p1 == "xxxxx" && set1, "redacted userinfo is not the fixed mask")
	s1, s2 := r1.String(), r2.String()
	verifrt.ObserveString("s1", s1)
	verifrt.Assert(s1 == s2, "String() of the redacted URLs differs: credentials leak")
	verifrt.Cover("redacted")
}

// VerifC16NoUserinfo: a URL without userinfo is returned as is.
func VerifC16NoUserinfo() {
	u := c16Base()
	r := RedactUserinfo(u)
	verifrt.Assert(r == u, "a URL without userinfo must be returned as is")
	verifrt.Cover("same")
}

type c16OtherErr struct{ s string }

func (e *c16OtherErr) Error() string { return e.s }

// VerifC16InError: only a top-level *url.Error with a userinfo URL changes,
// exactly in its URL field.
func VerifC16InError() {
	u := c16Base()
	hasUser := verifrt.Bool2()
	if hasUser {
		u.User = c16Userinfo()
	}
	text := c16Str(2)
	inner := &c16OtherErr{s: "inner"}
	ue := &url.Error{Op: "Get", URL: text, Err: inner}
	switch verifrt.Choice(4) {
	case 0:
		RedactUserinfoInURLError(u, nil)
		verifrt.Cover("nil")
	case 1:
		RedactUserinfoInURLError(u, ue)
		verifrt.Assert(ue.Op == "Get" && ue.Err == error(inner), "fields other than URL changed")
		if hasUser {
			want := RedactUserinfo(u).String()
			verifrt.Assert(ue.URL == want, "URL text is not the redacted form")
			verifrt.Cover("replaced")
		} else {
			verifrt.Assert(ue.URL == text, "URL text changed although there is no userinfo")
			verifrt.Cover("kept")
		}
	case 2:
		other := &c16OtherErr{s: text}
		RedactUserinfoInURLError(u, other)
		verifrt.Assert(other.s == text, "an error of another type was modified")
		verifrt.Cover("other-type")
	default:
		wrapped := errors.Join(ue)
		RedactUserinfoInURLError(u, wrapped)
		verifrt.Assert(ue.URL == text, "a wrapped (not top-level) *url.Error was modified")
		verifrt.Cover("wrapped")
	}
}
