//go:build verif

package netutil

import (
	"net"
	"net/netip"

	"github.com/AdguardTeam/golibs/internal/verifrt"
)

// ---- canonical PTR names (RFC 1035 s3.5, RFC 3596 s2.5), from the statement ----

const c04Hex = "0123456789abcdef"

func c04Dec(b []byte, v byte) []byte {
	switch {
	case v >= 100:
		b = append(b, '0'+v/100, '0'+v/10%10, '0'+v%10)
	case v >= 10:
		b = append(b, '0'+v/10, '0'+v%10)
	default:
		b = append(b, '0'+v)
	}

	return b
}

func c04Canon4(a [4]byte) string {
	var b []byte
	for i := 3; i >= 0; i-- {
		b = c04Dec(b, a[i])
		b = append(b, '.')
	}

	return string(b) + "in-addr.arpa"
}

func c04Canon16(a [16]byte) string {
	var b []byte
	for i := 15; i >= 0; i-- {
		b = append(b, c04Hex[a[i]&0x0f], '.', c04Hex[a[i]>>4], '.')
	}

	return string(b) + "ip6.arpa"
}

func c04Canon(a netip.Addr) string {
	if a.Is4() {
		return c04Canon4(a.As4())
	}

	return c04Canon16(a.As16())
}

// c04LowerASCII folds A-Z only.
func c04LowerASCII(s string) string {
	b := []byte(s)
	for i, c := range b {
		nc := c
		if c >= 'A' && c <= 'Z' {
			nc = c + 32
		}
		b[i] = nc
	}

	return string(b)
}

// c04Variant changes the case of letters under symbolic flags and appends an
// optional trailing dot.
func c04Variant(s string) string {
	b := []byte(s)
	for i, c := range b {
		up := verifrt.Bool()
		nc := c
		if c >= 'a' && c <= 'z' && up {
			nc = c - 32
		}
		b[i] = nc
	}
	if verifrt.Bool2() {
		b = append(b, '.')
	}

	return string(b)
}

// c04VariantModes is c04Variant for long names: all lower case, all upper
// case, or exactly one letter position in upper case (every position), plus
// the optional trailing dot.  (Independent per-letter flags make every byte
// condition a two-variable solver query, 64 of them per path.)
func c04VariantModes(s string) string {
	b := []byte(s)
	mode := verifrt.Choice(3)
	pos := -1
	if mode == 2 {
		pos = verifrt.Choice(len(b))
	}
	for i, c := range b {
		nc := c
		if c >= 'a' && c <= 'z' && (mode == 1 || i == pos) {
			nc = c - 32
		}
		b[i] = nc
	}
	if verifrt.Bool2() {
		b = append(b, '.')
	}

	return string(b)
}

// c04AssertEq asserts string equality byte by byte (one small query per
// byte instead of one over all bytes).
func c04AssertEq(got, want, msg string) {
	verifrt.Assert(len(got) == len(want), msg)
	for i := 0; i < len(got) && i < len(want); i++ {
		verifrt.Assert(got[i] == want[i], msg)
	}
}

// VerifC04RoundTrip4: all 2^32 IPv4 addresses, as 4-byte and as IPv4-mapped
// 16-byte net.IP.
func VerifC04RoundTrip4() {
	var a [4]byte
	copy(a[:], verifrt.Bytes(4))
	var ip net.IP
	if verifrt.Bool2() {
		ip = net.IP(a[:])
		verifrt.Cover("4-byte")
	} else {
		ip = net.IPv4(a[0], a[1], a[2], a[3])
		verifrt.Cover("ipv4-mapped")
	}
	arpa, err := IPToReversedAddr(ip)
	verifrt.Assert(err == nil, "IPToReversedAddr rejects an IPv4 address")
	verifrt.ObserveString("arpa", arpa)
	c04AssertEq(arpa, c04Canon4(a), "IPToReversedAddr is not the canonical in-addr.arpa name")
	back, err := IPFromReversedAddr(c04Variant(arpa))
	verifrt.Assert(err == nil, "IPFromReversedAddr rejects a canonical name (some case, optional dot)")
	verifrt.Assert(back == netip.AddrFrom4(a), "IPv4 round trip does not return the address")
}

// VerifC04RoundTrip6: all 2^128 IPv6 addresses except the IPv4-mapped ones
// (those are encoded as IPv4, covered above).
func VerifC04RoundTrip6() {
	var a [16]byte
	copy(a[:], verifrt.Bytes(16))
	ip := net.IP(a[:])
	mapped := true
	for i := 0; i < 10; i++ {
		mapped = mapped && a[i] == 0
	}
	mapped = mapped && a[10] == 0xff && a[11] == 0xff
	verifrt.Assume(!mapped)
	arpa, err := IPToReversedAddr(ip)
	verifrt.Assert(err == nil, "IPToReversedAddr rejects an IPv6 address")
	verifrt.ObserveString("arpa", arpa)
	c04AssertEq(arpa, c04Canon16(a), "IPToReversedAddr is not the canonical ip6.arpa name")
	back, err := IPFromReversedAddr(c04VariantModes(arpa))
	verifrt.Assert(err == nil, "IPFromReversedAddr rejects a canonical name (some case, optional dot)")
	verifrt.Assert(back.Is6() && !back.Is4In6() && back.Zone() == "", "IPv6 round trip returns an address of another kind")
	b16 := back.As16()
	for i := range b16 {
		verifrt.Assert(b16[i] == a[i], "IPv6 round trip does not return the address")
	}
	verifrt.Cover("ipv6")
}

// c04Tail appends root with symbolic letter case and 0..2 trailing dots (one
// is the optional dot of the statement, two make an empty label).
func c04Tail(b []byte, root string) []byte {
	for i := 0; i < len(root); i++ {
		c := root[i]
		if c >= 'a' && c <= 'z' {
			up := verifrt.Bool()
			nc := c
			if up {
				nc = c - 32
			}
			c = nc
		}
		b = append(b, c)
	}
	// no, one (the optional one) or two trailing dots
	for d := verifrt.Choice(3); d > 0; d-- {
		b = append(b, '.')
	}

	return b
}

func c04TrimDot(s string) string {
	if len(s) > 0 && s[len(s)-1] == '.' {
		return s[:len(s)-1]
	}

	return s
}

// c04CheckAccepted asserts that an accepted name is the canonical name of the
// returned address.
func c04CheckAccepted(s string) {
	addr, err := IPFromReversedAddr(s)
	verifrt.ObserveBool("accepted", err == nil)
	if err != nil {
		ae, ok := err.(*AddrError)
		verifrt.Assert(ok, "IPFromReversedAddr error is not an *AddrError")
		_ = ae
		verifrt.Cover("rejected")

		return
	}
	verifrt.Assert(addr.IsValid(), "accepted name yields the zero Addr")
	want := c04Canon(addr)
	got := c04LowerASCII(c04TrimDot(s))
	verifrt.Assert(got == want, "IPFromReversedAddr accepted a name that is not the canonical name of the address it returned")
	verifrt.Cover("accepted")
}

// VerifC04AcceptsV4: X ++ j ++ "in-addr.arpa" with X an arbitrary ASCII string
// and j an arbitrary ASCII byte (the canonical '.' or anything else); for the
// empty X also the bare root.
func VerifC04AcceptsV4() {
	max := 7
	if verifrt.Thorough() {
		max = 9
	}
	x := verifrt.String(verifrt.Len(max))
	verifAssumeASCII(x)
	verifAssumeNoACE(x)
	b := []byte(x)
	if len(x) > 0 || verifrt.Bool2() {
		j := verifrt.Byte()
		verifrt.Assume(j < 0x80)
		b = append(b, j)
	}
	b = c04Tail(b, "in-addr.arpa")
	c04CheckAccepted(string(b))
}

// VerifC04AcceptsV6: 32 arbitrary ASCII bytes at the nibble positions of the
// 72-byte shape (thorough: one separator position is arbitrary too).
func VerifC04AcceptsV6() {
	free := -1
	if verifrt.Thorough() {
		free = verifrt.Choice(33) - 1
	}
	var b []byte
	for i := 0; i < 32; i++ {
		c := verifrt.Byte()
		// not '.': every byte that could re-split the name doubles the label
		// structures idna.ToASCII walks through (2^32); the separator
		// positions are covered by the free position below
		verifrt.Assume(c < 0x80 && c != 'x' && c != '.')
		b = append(b, c)
		if i == free {
			d := verifrt.Byte()
			verifrt.Assume(d < 0x80 && d != 'x')
			b = append(b, d)
		} else {
			b = append(b, '.')
		}
	}
	b = c04Tail(b, "ip6.arpa")
	c04CheckAccepted(string(b))
}

// VerifC04Short: every ASCII string up to the bound (none can be a full
// reversed address except through the roots): rejection and totality.
func VerifC04Short() {
	max := 6
	if verifrt.Thorough() {
		max = 8
	}
	s := verifrt.String(verifrt.Len(max))
	verifAssumeASCII(s)
	verifAssumeNoACE(s)
	c04CheckAccepted(s)
}

// VerifC04AcceptsV4V6Text: IPv6-style texts (incl. IPv4-mapped forms such as
// "::ffff:4.3.2.1") in front of ".in-addr.arpa": none of them is a canonical
// in-addr.arpa name, so none may be accepted.
func VerifC04AcceptsV4V6Text() {
	var b []byte
	lead := verifrt.Bool2()
	if lead {
		b = append(b, ':', ':')
	}
	nf := verifrt.Len(2)
	for i := 0; i < nf; i++ {
		w := [...]int{1, 4}[verifrt.Choice(2)]
		for j := 0; j < w; j++ {
			c := verifrt.Byte()
			verifrt.Assume(c >= '0' && c <= '9' || c >= 'a' && c <= 'f' || c >= 'A' && c <= 'F')
			b = append(b, c)
		}
		b = append(b, ':')
	}
	if !lead && nf > 0 && verifrt.Bool2() {
		b = append(b, ':')
	}
	for k := 0; k < 4; k++ {
		if k > 0 {
			b = append(b, '.')
		}
		d := verifrt.Byte()
		verifrt.Assume(d >= '0' && d <= '9')
		b = append(b, d)
	}
	b = append(b, '.')
	b = c04Tail(b, "in-addr.arpa")
	c04CheckAccepted(string(b))
}

// VerifC04UnicodeRoot: a complete reversed name in which one byte of the root
// ("in-addr.arpa" / "ip6.arpa") is replaced by an arbitrary two-byte UTF-8
// rune (thorough: three-byte runes too).  Such a name is the canonical name of
// no address, whatever Unicode case mapping says about the rune, so it must be
// rejected; the real idna, strings.ToLower and unicode tables are executed.
func VerifC04UnicodeRoot() {
	v6 := verifrt.Bool2()
	root := "in-addr.arpa"
	var b []byte
	if v6 {
		root = "ip6.arpa"
		for i := 0; i < 32; i++ {
			b = append(b, "0123456789abcdef"[i%16], '.')
		}
	} else {
		d := verifrt.Byte()
		verifrt.Assume(d >= '0' && d <= '9')
		b = append(b, '4', '.', '3', '.', '2', '.', d, '.')
	}
	pos := verifrt.Choice(len(root))
	three := false
	if verifrt.Thorough() {
		three = verifrt.Bool2()
	}
	for i := 0; i < len(root); i++ {
		if i != pos {
			b = append(b, root[i])

			continue
		}
		if three {
			c0, c1, c2 := verifrt.Byte(), verifrt.Byte(), verifrt.Byte()
			verifrt.Assume(c0 >= 0xe1 && c0 <= 0xec && c1 >= 0x80 && c1 <= 0xbf && c2 >= 0x80 && c2 <= 0xbf)
			b = append(b, c0, c1, c2)
		} else {
			c0, c1 := verifrt.Byte(), verifrt.Byte()
			verifrt.Assume(c0 >= 0xc2 && c0 <= 0xdf && c1 >= 0x80 && c1 <= 0xbf)
			b = append(b, c0, c1)
		}
	}
	s := string(b)
	addr, err := IPFromReversedAddr(s)
	verifrt.ObserveBool("accepted", err == nil)
	_ = addr
	verifrt.Assert(err != nil, "IPFromReversedAddr accepted a name with a non-ASCII rune in the ARPA root")
	verifrt.Cover("rejected")
}

// VerifC04V6Separators: the 72-byte shape with fixed hex nibbles except around
// one position: one of the 32 separators is an arbitrary ASCII byte and its two
// neighbour nibbles are arbitrary ASCII bytes (so a multi-byte label at every
// nibble slot, of both parities, is inside).
func VerifC04V6Separators() {
	free := verifrt.Choice(32)
	var b []byte
	for i := 0; i < 32; i++ {
		if i == free || i == free+1 {
			c := verifrt.Byte()
			verifrt.Assume(c < 0x80 && c != 'x' && c != '.')
			b = append(b, c)
		} else {
			b = append(b, "0123456789abcdefABCDEF"[(i*7)%22])
		}
		if i == free {
			d := verifrt.Byte()
			verifrt.Assume(d < 0x80 && d != 'x')
			b = append(b, d)
		} else {
			b = append(b, '.')
		}
	}
	b = c04Tail(b, "ip6.arpa")
	c04CheckAccepted(string(b))
}

// VerifC04V6Long: 1..2 extra labels (one arbitrary ASCII byte each) in front
// of a full 32-nibble ip6.arpa name, and the same name with the first 1..2
// nibble labels missing: lengths 68..76 around the only valid length 72.
func VerifC04V6Long() {
	var b []byte
	skip := 0
	switch verifrt.Choice(3) {
	case 0:
		for k := 1 + verifrt.Choice(2); k > 0; k-- {
			c := verifrt.Byte()
			verifrt.Assume(c < 0x80 && c != 'x' && c != '.')
			b = append(b, c, '.')
		}
	case 1:
		skip = 1 + verifrt.Choice(2)
	}
	for i := skip; i < 32; i++ {
		if i == skip {
			c := verifrt.Byte()
			verifrt.Assume(c < 0x80 && c != 'x' && c != '.')
			b = append(b, c, '.')

			continue
		}
		b = append(b, "0123456789abcdefABCDEF"[(i*7)%22], '.')
	}
	b = c04Tail(b, "ip6.arpa")
	c04CheckAccepted(string(b))
}
