//go:build verif

package netutil

import (
	"github.com/AdguardTeam/golibs/internal/verifrt"
	"golang.org/x/net/idna"
)

// ---- reference grammar written from the property statement ----

func c03LDH(c byte, inner bool) bool {
	switch {
	case c >= 'a' && c <= 'z', c >= 'A' && c <= 'Z', c >= '0' && c <= '9':
		return true
	}

	return inner && c == '-'
}

// c03HostLabel: 1..63 letters, digits or inner hyphens.
func c03HostLabel(s string, lo, hi int) bool {
	n := hi - lo
	if n < 1 || n > 63 {
		return false
	}
	for i := lo; i < hi; i++ {
		if !c03LDH(s[i], i > lo && i < hi-1) {
			return false
		}
	}

	return true
}

func c03HasNonDigit(s string, lo, hi int) bool {
	for i := lo; i < hi; i++ {
		if s[i] < '0' || s[i] > '9' {
			return true
		}
	}

	return false
}

const (
	c03Host = iota
	c03SRV
	c03Domain
)

// c03Ref decides whether the ASCII name t (the result of idna.ToASCII)
// belongs to the documented grammar of the given kind.
func c03Ref(t string, kind int) bool {
	if len(t) < 1 || len(t) > 253 {
		return false
	}
	lo := 0
	for i := 0; i <= len(t); i++ {
		if i < len(t) && t[i] != '.' {
			continue
		}
		last := i == len(t)
		switch {
		case last:
			if !c03HostLabel(t, lo, i) || !c03HasNonDigit(t, lo, i) {
				return false
			}
		case kind == c03Domain:
			if i-lo < 1 || i-lo > 63 {
				return false
			}
		case kind == c03SRV && i > lo && t[lo] == '_':
			if i-lo > 16 || !c03HostLabel(t, lo+1, i) {
				return false
			}
		default:
			if !c03HostLabel(t, lo, i) {
				return false
			}
		}
		lo = i + 1
	}

	return true
}

// c03CheckErr asserts that a rejection is an *AddrError carrying the input.
func c03CheckErr(err error, s string) {
	if err == nil {
		return
	}
	ae, ok := err.(*AddrError)
	verifrt.Assert(ok, "rejection is not an *AddrError")
	if ok {
		verifrt.Assert(ae.Addr == s, "AddrError.Addr is not the original input")
	}
}

func c03Input() string {
	max := 7
	if verifrt.Thorough() {
		max = 9
	}
	s := verifrt.String(verifrt.Len(max))
	verifAssumeASCII(s)
	verifAssumeNoACE(s)

	return s
}

// VerifC03Hostname: ValidateHostname against the reference grammar.
func VerifC03Hostname() {
	s := c03Input()
	err := ValidateHostname(s)
	want := c03Ref(s, c03Host)
	verifrt.ObserveBool("ok", err == nil)
	verifrt.Assert((err == nil) == want, "ValidateHostname differs from the documented grammar")
	c03CheckErr(err, s)
	if want {
		verifrt.Cover("valid")
	} else {
		verifrt.Cover("invalid")
	}
}

// VerifC03Domain: ValidateDomainName against the reference grammar.
func VerifC03Domain() {
	s := c03Input()
	err := ValidateDomainName(s)
	want := c03Ref(s, c03Domain)
	verifrt.ObserveBool("ok", err == nil)
	verifrt.Assert((err == nil) == want, "ValidateDomainName differs from the documented grammar")
	c03CheckErr(err, s)
	if want {
		verifrt.Cover("valid")
	} else {
		verifrt.Cover("invalid")
	}
}

// VerifC03SRV: ValidateSRVDomainName against the reference grammar.
func VerifC03SRV() {
	s := c03Input()
	err := ValidateSRVDomainName(s)
	want := c03Ref(s, c03SRV)
	verifrt.ObserveBool("ok", err == nil)
	verifrt.Assert((err == nil) == want, "ValidateSRVDomainName differs from the documented grammar")
	c03CheckErr(err, s)
	if want {
		verifrt.Cover("valid")
	} else {
		verifrt.Cover("invalid")
	}
}

// VerifC03Chain: hostname-valid => SRV-valid => domain-name-valid.
func VerifC03Chain() {
	s := c03Input()
	h := ValidateHostname(s) == nil
	v := ValidateSRVDomainName(s) == nil
	d := ValidateDomainName(s) == nil
	verifrt.Assert(!h || v, "a valid hostname is rejected as SRV domain name")
	verifrt.Assert(!v || d, "a valid SRV domain name is rejected as domain name")
	if h {
		verifrt.Cover("hostname")
	}
	if v && !h {
		verifrt.Cover("srv-only")
	}
	if d && !v {
		verifrt.Cover("domain-only")
	}
}

// c03Alpha appends n bytes from the hostname alphabet without 'x' (so that no
// "xn--" label can arise), with an arbitrary ASCII non-dot byte at free.
func c03Alpha(b []byte, n, free int) []byte {
	for i := 0; i < n; i++ {
		c := verifrt.Byte()
		if i == free {
			verifrt.Assume(c < 0x80 && c != '.' && c != 'x')
		} else {
			verifrt.Assume((c >= 'a' && c <= 'z' || c >= '0' && c <= '9' || c == '-' || c == '_') && c != 'x')
		}
		b = append(b, c)
	}

	return b
}

// VerifC03Boundaries: the three validators at the 63/64, 16/17 and 253/254
// boundaries against the reference grammar.
func VerifC03Boundaries() {
	var b []byte
	switch verifrt.Choice(3) {
	case 0: // label length 62..64 then TLD
		n := 62 + verifrt.Choice(3)
		b = c03Alpha(b, n, [...]int{-1, 0, n - 1}[verifrt.Choice(3)])
		b = append(b, '.')
		b = c03Alpha(b, 2, -1)
	case 1: // service label of length 15..18
		n := 15 + verifrt.Choice(4)
		b = append(b, '_')
		b = c03Alpha(b, n-1, [...]int{-1, 0, n - 2}[verifrt.Choice(3)])
		b = append(b, '.')
		b = c03Alpha(b, 3, verifrt.Choice(4)-1)
	default: // total length 252..254
		total := 252 + verifrt.Choice(3)
		for len(b)+64 <= total-1 {
			b = c03Alpha(b, 63, -1)
			b = append(b, '.')
		}
		b = c03Alpha(b, total-len(b), -1)
	}
	s := string(b)
	kind := verifrt.Choice(3)
	var err error
	switch kind {
	case c03Host:
		err = ValidateHostname(s)
	case c03SRV:
		err = ValidateSRVDomainName(s)
	default:
		err = ValidateDomainName(s)
	}
	want := c03Ref(s, kind)
	verifrt.ObserveBool("ok", err == nil)
	verifrt.Assert((err == nil) == want, "validator differs from the documented grammar at a length boundary")
	c03CheckErr(err, s)
	if want {
		verifrt.Cover("valid")
	} else {
		verifrt.Cover("invalid")
	}
}

// VerifC03IDN: internationalised names whose raw and punycode lengths lie on
// opposite sides of the 253-byte limit (the limit applies to the result of
// idna.ToASCII, which is executed for real), plus one arbitrary ASCII byte in
// the final label.
func VerifC03IDN() {
	var s string
	switch verifrt.Choice(2) {
	case 0:
		// k two-byte labels: 3k raw bytes, 8k punycode bytes
		k := 29 + verifrt.Choice(4)
		for i := 0; i < k; i++ {
			s += "я."
		}
	default:
		// k labels of 40 two-byte letters: 81k raw bytes, far fewer in punycode
		k := 3 + verifrt.Choice(3)
		for i := 0; i < k; i++ {
			for j := 0; j < 40; j++ {
				s += "а"
			}
			s += "."
		}
	}
	c := verifrt.Byte()
	verifrt.Assume(c < 0x80 && c != '.' && c != 'x')
	s += "c" + string([]byte{c})
	t, terr := idna.ToASCII(s)
	kind := verifrt.Choice(3)
	var err error
	switch kind {
	case c03Host:
		err = ValidateHostname(s)
	case c03SRV:
		err = ValidateSRVDomainName(s)
	default:
		err = ValidateDomainName(s)
	}
	want := terr == nil && c03Ref(t, kind)
	verifrt.ObserveBool("ok", err == nil)
	verifrt.ObserveInt("ascii-len", int64(len(t)))
	verifrt.Assert((err == nil) == want, "validator differs from the documented grammar applied to idna.ToASCII of an internationalised name")
	c03CheckErr(err, s)
	if want {
		verifrt.Cover("valid")
	} else {
		verifrt.Cover("invalid")
	}
}

// VerifC03NumericTLD: names whose final label is (almost) all digits and as
// long as the decimal forms of 2^8 .. 2^128 are (1..4, 9..11, 19..21, 38..40
// and 63 bytes): two positions are arbitrary ASCII bytes, the others '9' or
// the leading digits of the power of two.  "Contains a non-digit" must not
// depend on the label's numeric value.
func VerifC03NumericTLD() {
	k := [...]int{1, 2, 3, 4, 9, 10, 11, 19, 20, 21, 38, 39, 40, 63}[verifrt.Choice(14)]
	b := []byte("a.")
	if verifrt.Bool2() {
		b = []byte("_s.b.")
	}
	fill := "99999999999999999999999999999999999999999999999999999999999999999"
	if verifrt.Bool2() {
		// 2^64 = 18446744073709551616, 2^128 = 340282366920938463463374607431768211456
		fill = "1844674407370955161634028236692093846346337460743176821145600000"
	}
	p1, p2 := verifrt.Choice(k), k-1
	for i := 0; i < k; i++ {
		if i == p1 || i == p2 {
			c := verifrt.Byte()
			verifrt.Assume(c < 0x80 && c != '.')
			b = append(b, c)
		} else {
			b = append(b, fill[i])
		}
	}
	s := string(b)
	verifAssumeNoACE(s)
	kind := verifrt.Choice(3)
	var err error
	switch kind {
	case c03Host:
		err = ValidateHostname(s)
	case c03SRV:
		err = ValidateSRVDomainName(s)
	default:
		err = ValidateDomainName(s)
	}
	want := c03Ref(s, kind)
	verifrt.ObserveBool("ok", err == nil)
	verifrt.Assert((err == nil) == want, "validator differs from the documented grammar on a name with a numeric final label")
	c03CheckErr(err, s)
	if want {
		verifrt.Cover("valid")
	} else {
		verifrt.Cover("invalid")
	}
}

// VerifC03ACE: names with an "xn--" label (first or later position, either
// letter case) followed by 0..3 bytes from {'-','0','a','z'}: idna.ToASCII decodes or
// rejects the label (executed for real) and the validators must follow its
// verdict and the grammar of its result.
func VerifC03ACE() {
	var b []byte
	switch verifrt.Choice(3) {
	case 1:
		b = append(b, "a."...)
	case 2:
		b = append(b, "_s.a."...)
	}
	if verifrt.Bool2() {
		b = append(b, "xn--"...)
	} else {
		b = append(b, "XN--"...)
	}
	for n := verifrt.Len(3); n > 0; n-- {
		// a small alphabet: an arbitrary decoded rune would take the real
		// idna through its whole Unicode tables (thousands of code points
		// per byte)
		b = append(b, "-0az"[verifrt.Choice(4)])
	}
	if verifrt.Bool2() {
		b = append(b, ".com"...)
	}
	s := string(b)
	t, terr := idna.ToASCII(s)
	kind := verifrt.Choice(3)
	var err error
	switch kind {
	case c03Host:
		err = ValidateHostname(s)
	case c03SRV:
		err = ValidateSRVDomainName(s)
	default:
		err = ValidateDomainName(s)
	}
	want := terr == nil && c03Ref(t, kind)
	verifrt.ObserveBool("ok", err == nil)
	verifrt.Assert((err == nil) == want, "validator differs from the documented grammar applied to idna.ToASCII of a name with an xn-- label")
	c03CheckErr(err, s)
	if want {
		verifrt.Cover("valid")
	} else {
		verifrt.Cover("invalid")
	}
}
