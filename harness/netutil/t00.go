//go:build verif

package netutil

import (
	"net/netip"

	"github.com/AdguardTeam/golibs/internal/verifrt"
)

// VerifT00 is an engine smoke test: isIPv4Label against a reference.
func VerifT00() {
	n := verifrt.Len(4)
	s := verifrt.String(n)
	got := isIPv4Label(s)
	want := refIPv4Label(s)
	verifrt.Assert(got == want, "isIPv4Label differs")
	if got {
		verifrt.Cover("accepted")
	} else {
		verifrt.Cover("rejected")
	}
}

func refIPv4Label(s string) bool {
	if len(s) < 1 || len(s) > 3 {
		return false
	}
	v := 0
	for i := 0; i < len(s); i++ {
		if s[i] < '0' || s[i] > '9' {
			return false
		}
		v = v*10 + int(s[i]-'0')
	}
	if len(s) > 1 && s[0] == '0' {
		return false
	}
	return v <= 255
}

// VerifT01: IsValidIPString vs netip.ParseAddr on short strings.
func VerifT01() {
	n := verifrt.Len(6)
	s := verifrt.String(n)
	got := IsValidIPString(s)
	want := t01ref(s)
	verifrt.Assert(got == want, "IsValidIPString differs from netip.ParseAddr")
}

func t01ref(s string) bool {
	_, err := netip.ParseAddr(s)
	return err == nil
}
