//go:build verif

package netutil

import "github.com/AdguardTeam/golibs/internal/verifrt"

// verifAssumeASCII restricts s to 7-bit bytes.
func verifAssumeASCII(s string) {
	for i := 0; i < len(s); i++ {
		verifrt.Assume(s[i] < 0x80)
	}
}

// verifAssumeNoACE excludes names having a label that starts with the
// punycode prefix "xn--": what idna.ToASCII does with those (punycode
// decoding, bidi/joiner tables) is outside the bounds of the checks.
func verifAssumeNoACE(s string) {
	for i := 0; i+3 < len(s); i++ {
		if s[i] == 'x' && s[i+1] == 'n' && s[i+2] == '-' && s[i+3] == '-' && (i == 0 || s[i-1] == '.') {
			verifrt.Assume(false)
		}
	}
}
