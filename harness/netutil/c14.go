//go:build verif

package netutil

import (
	"net/netip"

	"github.com/AdguardTeam/golibs/internal/verifrt"
)

// VerifC14HostPort: ParseHostPort(hp.String()) == hp for every host without
// square brackets and every port.
func VerifC14HostPort() {
	max := 4
	if verifrt.Thorough() {
		max = 6
	}
	host := verifrt.String(verifrt.Len(max))
	for i := 0; i < len(host); i++ {
		verifrt.Assume(host[i] != '[' && host[i] != ']')
	}
	// port: every digit count and boundary with an arbitrary last digit
	// (a fully symbolic 16-bit port makes parse(format(p)) == p a 64-bit
	// division/multiplication chain no solver here decides in time)
	base := [...]uint16{0, 10, 90, 100, 990, 1000, 9990, 10000, 65530}[verifrt.Choice(9)]
	d := verifrt.Byte()
	verifrt.Assume(d <= 9 && (base != 65530 || d <= 5))
	hp := HostPort{Host: host, Port: base + uint16(d)}
	text := hp.String()
	verifrt.ObserveString("text", text)
	back, err := ParseHostPort(text)
	verifrt.Assert(err == nil, "ParseHostPort rejects the text form of a HostPort")
	if err == nil {
		verifrt.Assert(back.Host == hp.Host, "host changed in the round trip")
		verifrt.Assert(back.Port == hp.Port, "port changed in the round trip")
	}
	// the text encodings go through the same functions
	b, merr := hp.MarshalText()
	verifrt.Assert(merr == nil && string(b) == text, "MarshalText differs from String")
	var hp2 HostPort
	verifrt.Assert(hp2.UnmarshalText(b) == nil && hp2 == hp, "UnmarshalText(MarshalText(hp)) != hp")
	verifrt.Cover("round-trip")
}

// VerifC14Prefix: Prefix.UnmarshalText agrees with netip.ParsePrefix on text
// containing '/', and yields the single-address prefix on a bare address.
func VerifC14Prefix() {
	max := 6
	if verifrt.Thorough() {
		max = 8
	}
	c14CheckPrefix(verifrt.Bytes(verifrt.Len(max)))
}

// VerifC14PrefixShapes: address-shaped texts longer than the free-string
// bound: a lead from {"", "::", "::ffff:", "::FFFF:", "1::", "0:0:0:0:0:ffff:",
// "64:ff9b::"}, a tail that is a dotted quad of arbitrary digits, "h:h" or "h"
// with arbitrary hex digits, and optionally '/' with 0..3 arbitrary bytes.
func VerifC14PrefixShapes() {
	var b []byte
	b = append(b, [...]string{"", "::", "::ffff:", "::FFFF:", "1::", "0:0:0:0:0:ffff:", "64:ff9b::"}[verifrt.Choice(7)]...)
	switch verifrt.Choice(3) {
	case 0:
		for k := 0; k < 4; k++ {
			if k > 0 {
				b = append(b, '.')
			}
			b = c14Digits(b, 1, false)
		}
	case 1:
		b = c14Digits(b, 1, verifrt.Thorough())
		b = append(b, ':')
		b = c14Digits(b, 1, verifrt.Thorough())
	default:
		b = c14Digits(b, 1, verifrt.Thorough())
	}
	if verifrt.Bool2() {
		b = append(b, '/')
		b = append(b, verifrt.Bytes(verifrt.Len(3))...)
	}
	c14CheckPrefix(b)
}

// c14Digits appends w arbitrary decimal (or hex) digits.
func c14Digits(b []byte, w int, hex bool) []byte {
	for i := 0; i < w; i++ {
		c := verifrt.Byte()
		if hex {
			verifrt.Assume(c >= '0' && c <= '9' || c >= 'a' && c <= 'f' || c >= 'A' && c <= 'F')
		} else {
			verifrt.Assume(c >= '0' && c <= '9')
		}
		b = append(b, c)
	}

	return b
}

func c14CheckPrefix(text []byte) {
	orig := string(text)
	hasSlash := false
	for i := 0; i < len(orig); i++ {
		if orig[i] == '/' {
			hasSlash = true
		}
	}
	var p Prefix
	err := p.UnmarshalText(text)
	verifrt.ObserveBool("ok", err == nil)
	if hasSlash {
		want, werr := netip.ParsePrefix(orig)
		verifrt.Assert((err == nil) == (werr == nil), "acceptance differs from netip.ParsePrefix")
		if err == nil && werr == nil {
			verifrt.Assert(p.Prefix == want, "result differs from netip.ParsePrefix")
		}
		verifrt.Cover("with-slash")

		return
	}
	if len(orig) == 0 {
		// netip.Addr.UnmarshalText documents the empty text as the zero Addr
		verifrt.Cover("empty")

		return
	}
	addr, aerr := netip.ParseAddr(orig)
	verifrt.Assert((err == nil) == (aerr == nil), "acceptance of a bare address differs from netip.ParseAddr")
	if err == nil && aerr == nil {
		verifrt.Assert(p.Prefix == netip.PrefixFrom(addr, addr.BitLen()), "a bare address must give the full-length single-address prefix")
		verifrt.Cover("bare-address")
	}
}
