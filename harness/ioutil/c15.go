//go:build verif

package ioutil

import (
	"errors"
	"io"

	"github.com/AdguardTeam/golibs/internal/verifrt"
)

// ---- stubs obeying the io.Reader / io.Writer contracts ----

var errC15 = errors.New("c15 injected error")

// c15Reader delivers a symbolic stream with nondeterministic short reads,
// (0, nil) reads, data+EOF and injected errors, and records what it is asked.
type c15Reader struct {
	stream  []byte
	pos     int
	calls   int
	lastReq int
	maxReq  uint64 // largest (request + delivered so far)
	lastErr error
	given   uint64
}

func (r *c15Reader) Read(p []byte) (n int, err error) {
	r.calls++
	r.lastReq = len(p)
	if need := r.given + uint64(len(p)); need > r.maxReq {
		r.maxReq = need
	}
	avail := len(r.stream) - r.pos
	k := len(p)
	if avail < k {
		k = avail
	}
	k = verifrt.Len(k) // 0..min(len(p), available): short and empty reads
	copy(p, r.stream[r.pos:r.pos+k])
	r.pos += k
	r.given += uint64(k)
	switch verifrt.Choice(3) {
	case 0:
		err = nil
	case 1:
		err = io.EOF
	default:
		err = errC15
	}
	r.lastErr = err

	return k, err
}

// VerifC15LimitReaderHistory: bounded histories of Reads through the public
// constructor.
func VerifC15LimitReaderHistory() {
	limit := verifrt.Uint64()
	steps := 2
	if verifrt.Thorough() {
		steps = 3
	}
	src := &c15Reader{stream: verifrt.Bytes(6)}
	lr := LimitReader(src, limit)
	var delivered uint64
	for i := 0; i < steps; i++ {
		p := make([]byte, verifrt.Len(3))
		callsBefore, posBefore := src.calls, src.pos
		got, err := lr.Read(p)
		verifrt.Assert(got >= 0 && got <= len(p), "Read returned a count outside 0..len(p)")
		if delivered == limit {
			var le *LimitError
			isLimit := errors.As(err, &le)
			verifrt.Assert(got == 0 && isLimit, "after n delivered bytes Read must return 0 and *LimitError")
			if isLimit {
				verifrt.Assert(le.Limit == limit, "LimitError does not carry n")
			}
			verifrt.Assert(src.calls == callsBefore, "underlying reader consulted after the limit was reached")
			verifrt.Cover("limit-reached")

			continue
		}
		verifrt.Assert(src.calls == callsBefore+1, "exactly one underlying Read per Read below the limit")
		verifrt.Assert(uint64(src.lastReq) <= limit-delivered, "requested more than the remaining budget")
		verifrt.Assert(err == src.lastErr, "underlying error not passed through")
		verifrt.Assert(got == src.pos-posBefore, "delivered count differs from what the underlying reader gave")
		for j := 0; j < got; j++ {
			verifrt.Assert(p[j] == src.stream[posBefore+j], "delivered bytes are not a prefix of the stream")
		}
		delivered += uint64(got)
		verifrt.Assert(delivered <= limit, "delivered more than n bytes")
		if got > 0 {
			verifrt.Cover("read-some")
		}
	}
	verifrt.Assert(src.maxReq <= limit, "delivered + requested exceeded n at some underlying Read")
}

// VerifC15LimitReaderStep: one Read from an arbitrary state satisfying the
// representation invariant n <= limit (inductive step; all 64-bit values).
func VerifC15LimitReaderStep() {
	limit := verifrt.Uint64()
	n := verifrt.Uint64()
	verifrt.Assume(n <= limit)
	src := &c15Reader{stream: verifrt.Bytes(3)}
	lr := &limitedReader{r: src, limit: limit, n: n}
	p := make([]byte, verifrt.Len(3))
	got, err := lr.Read(p)
	if n == 0 {
		le, isLimit := err.(*LimitError)
		verifrt.Assert(got == 0 && isLimit && src.calls == 0, "exhausted reader must return (0, *LimitError) without reading")
		if isLimit {
			verifrt.Assert(le.Limit == limit, "LimitError does not carry the limit")
		}
		verifrt.Assert(lr.n == 0, "state changed after the limit")
		verifrt.Cover("exhausted")

		return
	}
	verifrt.Assert(src.calls == 1, "one underlying Read")
	verifrt.Assert(uint64(src.lastReq) <= n, "request exceeds remaining")
	verifrt.Assert(got >= 0 && got <= src.lastReq, "count outside request")
	verifrt.Assert(lr.n == n-uint64(got), "remaining not decreased by the delivered count")
	verifrt.Assert(lr.n <= lr.limit, "invariant n <= limit broken")
	verifrt.Assert(err == src.lastErr, "error not passed through")
	verifrt.Cover("below-limit")
}

// c15BadReader violates nothing in io.Reader but returns a negative count,
// which the implementation documents it handles.
type c15NegReader struct{}

func (c15NegReader) Read(p []byte) (int, error) { return -1 - verifrt.Len(2), nil }

// VerifC15LimitReaderNegative: a negative count from the wrapped reader is
// turned into an error, not a panic or a budget increase.
func VerifC15LimitReaderNegative() {
	n := verifrt.Uint64()
	verifrt.Assume(n > 0)
	lr := &limitedReader{r: c15NegReader{}, limit: n, n: n}
	got, err := lr.Read(make([]byte, verifrt.Len(2)))
	verifrt.Assert(got == 0 && err != nil, "negative count must yield (0, error)")
	verifrt.Assert(lr.n == n, "budget changed by a negative count")
	verifrt.Cover("negative")
}

// c15Writer records the bytes it is given.
type c15Writer struct {
	got   []byte
	calls int
}

func (w *c15Writer) Write(b []byte) (n int, err error) {
	w.calls++
	w.got = append(w.got, b...)
	n = verifrt.Len(len(b)) // short writes
	if verifrt.Bool() {
		err = errC15
	}

	return n, err
}

// VerifC15TruncWriterHistory: bounded histories of Writes.
func VerifC15TruncWriterHistory() {
	limit := uint(verifrt.Uint64())
	// (four Writes do not finish within the thorough budget)
	steps := 3
	rec := &c15Writer{}
	tw := NewTruncatedWriter(rec, limit)
	var all []byte
	for i := 0; i < steps; i++ {
		b := verifrt.Bytes(verifrt.Len(3))
		all = append(all, b...)
		n, _ := tw.Write(b)
		verifrt.Assert(n == len(b), "Write must always report len(b)")
		want := uint(len(all))
		if limit < want {
			want = limit
		}
		verifrt.Assert(uint(len(rec.got)) == want, "forwarded byte count is not min(total, n)")
		for j := range rec.got {
			verifrt.Assert(rec.got[j] == all[j], "forwarded bytes are not a prefix of the concatenated writes")
		}
	}
	if uint(len(all)) > limit {
		verifrt.Cover("truncated")
	} else {
		verifrt.Cover("not-truncated")
	}
}

// VerifC15TruncWriterStep: one Write from an arbitrary state with
// offset <= limit (inductive step).
func VerifC15TruncWriterStep() {
	limit := uint(verifrt.Uint64())
	offset := uint(verifrt.Uint64())
	verifrt.Assume(offset <= limit)
	rec := &c15Writer{}
	tw := &TruncatedWriter{w: rec, limit: limit, offset: offset}
	b := verifrt.Bytes(verifrt.Len(3))
	n, _ := tw.Write(b)
	verifrt.Assert(n == len(b), "Write must always report len(b)")
	rem := limit - offset
	fw := uint(len(b))
	if rem < fw {
		fw = rem
	}
	verifrt.Assert(uint(len(rec.got)) == fw, "forwarded count is not min(len(b), remaining)")
	for j := range rec.got {
		verifrt.Assert(rec.got[j] == b[j], "forwarded bytes are not a prefix of b")
	}
	verifrt.Assert(tw.offset == offset+fw && tw.offset <= tw.limit, "offset invariant broken")
	if rem == 0 {
		verifrt.Assert(rec.calls == 0, "underlying writer called after the limit")
		verifrt.Cover("full")
	} else {
		verifrt.Cover("room")
	}
}
