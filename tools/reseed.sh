#!/bin/bash
# usage: reseed.sh [tier] [name ...]
# re-runs the property's check against every recorded seeded change (or the named ones):
# git -C /repo apply <patch>; gosym check <id>; git -C /repo checkout -- .
# prints one line per change and updates check_<tier>.log + the "check" entry of meta.json
tier=${1:-quick}; shift
names="$@"
[ -z "$names" ] && names=$(ls /verif/seeded)
if [ -n "$(git -C /repo status --porcelain)" ]; then echo "/repo working tree not clean"; exit 2; fi
for name in $names; do
  d=/verif/seeded/$name
  id=$(python3 -c "import json;print(json.load(open('$d/meta.json'))['property'])")
  git -C /repo apply $d/patch.diff || { echo "$name: patch does not apply"; continue; }
  start=$(date +%s)
  /verif/bin/gosym check $id --tier $tier > $d/check_$tier.log 2>&1
  code=$?
  end=$(date +%s)
  git -C /repo checkout -- .
  python3 - "$d" "$tier" "$code" "$((end-start))" <<'PY'
import json,sys
d,tier,code,secs=sys.argv[1:]
m=json.load(open(d+'/meta.json'))
lines=[l.strip() for l in open(f'{d}/check_{tier}.log') if l.startswith(('VIOLATION','  harness=','INCONCLUSIVE','KNOWN-FINDING','OK '))][:8]
viol=sum(1 for l in lines if l.startswith('VIOLATION'))
m['check']={"tier":tier,"exit_code":int(code),"violation_lines":viol,"seconds":int(secs),"detected":int(code)==1,"output":lines}
json.dump(m,open(d+'/meta.json','w'),indent=1)
print(f"{m['name']}: property={m['property']} exit={code} detected={int(code)==1} {secs}s")
PY
done
