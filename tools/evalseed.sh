#!/bin/bash
# usage: evalseed.sh <property id> <dir with patch.diff demo_test.go notes.md> <name> [tier]
# 1. confirms the seeded change in a scratch worktree (compiles, existing tests pass, demo fails with / passes without)
# 2. applies it to /repo, runs the property's check, reverts
# 3. records everything under /verif/seeded/<name>/
set -u
id=$1; src=$2; name=$3; tier=${4:-quick}
out=/verif/seeded/$name
mkdir -p $out
cp $src/patch.diff $out/patch.diff
cp $src/demo_test.go $out/demo_test.go 2>/dev/null
[ -f $src/notes.md ] && cp $src/notes.md $out/notes.md
GOENV="env -u GOSUMDB GOFLAGS=-mod=mod GOPROXY=off GOTOOLCHAIN=auto"
wt=$(mktemp -d /tmp/evalseed.XXXXXX)
git -C /repo worktree add -q --detach $wt HEAD
pkgs=$(grep '^+++ b/' $out/patch.diff | sed 's|+++ b/||' | xargs -n1 dirname | sort -u)
testpkg=$(head -30 $out/demo_test.go | grep -m1 '^package ' | awk '{print $2}')
res_apply=ok; (cd $wt && git apply $out/patch.diff) || res_apply=FAILED
existing=ok
for p in $pkgs; do (cd $wt && $GOENV go test -vet=off -count=1 ./$p/ >$wt.existing.log 2>&1) || existing=FAILED; done
# demo goes into the first touched package dir
demodir=$(echo $pkgs | awk '{print $1}')
cp $out/demo_test.go $wt/$demodir/zz_seeded_demo_test.go
(cd $wt && $GOENV go test -vet=off -count=1 -run 'TestSeededDemo' ./$demodir/ >$wt.demo_with.log 2>&1) && demo_with=PASSES || demo_with=fails
(cd $wt && git apply -R $out/patch.diff)
(cd $wt && $GOENV go test -vet=off -count=1 -run 'TestSeededDemo' ./$demodir/ >$wt.demo_without.log 2>&1) && demo_without=passes || demo_without=FAILS
rm -f $wt/$demodir/zz_seeded_demo_test.go
# run the check against the scratch worktree with the change applied (same
# binary, same harnesses; GOSYM_REPO redirects the tree that is loaded and
# GOSYM_EVIDENCE_DIR keeps /verif/evidence, which belongs to the unchanged
# /repo, from being overwritten) -- so several seeded changes can be
# evaluated in parallel and /repo is never modified.
(cd $wt && git apply $out/patch.diff)
start=$(date +%s)
GOSYM_REPO=$wt GOSYM_EVIDENCE_DIR=$wt.ev /verif/bin/gosym check $id --tier $tier > $out/check_$tier.log 2>&1
code=$?
end=$(date +%s)
git -C /repo worktree remove --force $wt
rm -rf $wt.ev $wt.*.log
viol=$(grep -c '^VIOLATION' $out/check_$tier.log)
python3 - "$id" "$name" "$tier" "$res_apply" "$existing" "$demo_with" "$demo_without" "$code" "$viol" "$((end-start))" "$out" <<'PY'
import json,sys
id,name,tier,ap,ex,dw,dwo,code,viol,secs,out=sys.argv[1:]
notes=''
try: notes=open(out+'/notes.md').read()
except Exception: pass
lines=[l.strip() for l in open(f'{out}/check_{tier}.log') if l.startswith(('VIOLATION','  harness=','INCONCLUSIVE','KNOWN-FINDING','OK '))][:8]
meta={"property":id,"name":name,"patch_applies":ap,"existing_tests_with_change":ex,"demo_with_change":dw,"demo_without_change":dwo,
 "confirmed": ap=="ok" and ex=="ok" and dw=="fails" and dwo=="passes",
 "check":{"tier":tier,"exit_code":int(code),"violation_lines":int(viol),"seconds":int(secs),"detected":int(code)==1,"output":lines},
 "needs":notes[:1500],
 "ran":[f"git worktree add (scratch); git apply patch.diff; go test ./<pkg>/ (existing suite); go test -run TestSeededDemo with and without the change",
        f"scratch worktree of /repo with patch.diff applied; GOSYM_REPO=<worktree> GOSYM_EVIDENCE_DIR=<scratch> /verif/bin/gosym check {id} --tier {tier}; git worktree remove --force"]}
json.dump(meta,open(out+'/meta.json','w'),indent=1)
print(f"{name}: confirmed={meta['confirmed']} (apply={ap} existing={ex} demo_with={dw} demo_without={dwo}) check exit={code} violations={viol} {secs}s")
PY
