#!/bin/sh
# validates MANIFEST.json and all evidence files against the schemas
python3-vt - <<'PY'
import json, jsonschema, glob
jsonschema.validate(json.load(open('/verif/MANIFEST.json')), json.load(open('/root/.vp/MANIFEST.schema.json')))
print('MANIFEST valid')
for f in sorted(glob.glob('/verif/evidence/*.json')):
    jsonschema.validate(json.load(open(f)), json.load(open('/root/.vp/EVIDENCE.schema.json')))
    print(f, 'valid')
PY
