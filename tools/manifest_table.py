# Claimed checks and not-applicable properties (exec'd by mkmanifest.py).
SMT = "solver-based: bounded symbolic execution of the real code (go/ssa -> SMT-LIB2 bit-vectors, z3)"

chk("C06",
    "Bounded symbolic model checking of IsLocallyServed/IsSpecialPurpose against a reference generated from their doc comments; "
    "all address bits are symbolic so the verdict covers every IPv4/IPv6 address (the only bound is the zone length, which the code never reads).",
    SMT + "; implementation and doc-derived reference each merged to one term, equivalence decided per address kind")

chk("C15",
    "Bounded symbolic model checking of LimitReader/TruncatedWriter: a one-step inductive harness from an arbitrary symbolic state (all 64-bit limits/counters, "
    "representation invariant assumed) plus bounded call histories against nondeterministic contract-obeying reader/writer stubs.",
    SMT + "; inductive step + bounded histories; wrapped reader/writer are nondeterministic stubs")

chk("C02",
    "Differential bounded symbolic execution: each allocation-free validator and its real reference parser (netip.ParseAddr/ParseAddrPort, ValidateHostname[Label]) run on the same symbolic string; "
    "all byte strings up to a length bound plus shape families (IPv6 field counts, ports around 65535, labels 0..65, names around 63/253) chosen from the code's boundaries.",
    SMT + "; differential harness vs. the real reference parser")

chk("C03",
    "Bounded symbolic execution of ValidateHostname/DomainName/SRVDomainName with the real idna.ToASCII against a reference grammar written from the statement, "
    "the inclusion chain, and the *AddrError/Addr assertions, for all ASCII names up to a length bound plus length-boundary shapes.",
    SMT + "; reference-grammar oracle")

chk("C04",
    "Bounded symbolic execution of the ARPA address codec: round trip over fully symbolic address bits (all 2^32 + 2^128 addresses) with case variants, "
    "and an accepted-language harness asserting that every accepted name is the canonical name of the returned address.",
    SMT + "; round trip over all address bits + accepted-language canonicity")

chk("C05",
    "Bounded symbolic execution of PrefixFromReversedAddr/ExtractReversedAddr against an independent reference decoder on symbolic label sequences "
    "(octet/nibble/multi-byte labels, both roots in every case, arbitrary joining byte, leading labels) and on all short ASCII strings.",
    SMT + "; implementation vs. independent reference decoder")

chk("C01",
    "Bounded symbolic execution of every exported text/bytes/IP-consuming function of netutil, hostsfile, urlutil and stringutil with all Go run-time panic sites, "
    "explicit panics and unwinding failures as assertions, over all byte strings up to a length bound, ARPA-shaped names, all net.IP lengths and all netip address kinds; "
    "an API enumeration guard lists every exported function that is neither driven nor excluded as outside the claim (NOTE line, outside_bound in the evidence).",
    SMT + "; panic sites and unwinding as assertions, no oracle",
    "timeutil.Duration text methods are not driven (listed as excluded in the evidence).")

chk("C07",
    "Bounded symbolic execution of Record.UnmarshalText against a reference field grammar (real netip.ParseAddr and ValidateDomainName as the statement's givens), "
    "error classification, retained names, and the MarshalText round trip, on all short ASCII lines and a hosts(5)-shaped family.",
    SMT + "; reference field grammar + round trip")

chk("C08",
    "Bounded symbolic execution of hostsfile.Parse (real bufio.Scanner) against a line-by-line reference under enumerated reader fragmentations, and of DefaultStorage "
    "against an association-list model with solver-decided key equalities.",
    SMT + "; reference line splitter, fragmentation-parameterised reader stub, association-list model")

chk("C12",
    "Bounded symbolic execution of the net<->netip conversions against the statement's oracles (family, bytes, zone, port; membership via the real net.IPNet.Contains over "
    "fully symbolic IP, mask and probe address; canonicity via net.IPMask.Size), and of PreferIPv4/PreferIPv6 as an order over all address pairs plus the real slices.SortFunc on short slices.",
    SMT + "; statement oracles over fully symbolic addresses/masks, real std references",
    "One known finding is recorded in known_findings.json (IPv4-mapped IP with a short 16-byte mask).")

chk("C13",
    "Bounded symbolic execution of ContainsFold against the statement's definition (real strings.EqualFold on every rune-aligned window) and of SplitTrimmed against its "
    "definition (real strings.Split/TrimSpace), on all ASCII operands up to a length bound (thorough: one multi-byte rune through the real unicode tables).",
    SMT + "; implementation vs. definitional reference")

chk("C14",
    "Bounded symbolic execution of the text encodings of HostPort (round trip), netutil.Prefix (differential vs netip.ParsePrefix/ParseAddr) and urlutil.URL "
    "(MarshalText is String(), UnmarshalText is url.Parse, round trip of String(), JSON round trip through the real encoding/json string escaping) and "
    "timeutil.Duration (text and JSON round trip on a one-byte-symbolic family of durations plus edge values) on symbolic texts.",
    SMT + "; round trips and differential comparison with the real std parsers",
    "Durations with more than one symbolic byte are outside the bound (64-bit division by 10^9 is out of the solvers' reach); one known finding (URLs with empty text form).")

chk("C16",
    "Two-run bounded symbolic execution of RedactUserinfo: two URLs sharing every component and differing only in symbolic credentials must redact to field-wise equal URLs "
    "with equal real URL.String(); inputs untouched; RedactUserinfoInURLError changes only a top-level *url.Error's URL.",
    SMT + "; two-run (non-interference) harness with the real URL.String")

chk("C09",
    "Bounded symbolic execution of cache API histories (incl. operations from inside OnDelete) against an abstract LRU model for a family of 108 configurations; "
    "Stats, Get results, Set results and the OnDelete log compared after every operation; the unsafe container-of pointer arithmetic is executed, not stubbed.",
    SMT + "; API histories against an abstract LRU model")

chk("C11",
    "Bounded symbolic execution of operation histories of MapSet[int], SortedSliceSet[int] and RingBuffer[int] against abstract set/ring models, with clone/origin continued "
    "separately and nondeterministic spare capacity on growing appends.",
    SMT + "; operation histories against abstract models")

SCHED = "solver-based: bounded symbolic execution of the real code with goroutines under an explored scheduler (schedule choices and data decided in one DFS, z3 for the data)"

chk("C10",
    "Bounded exploration of all interleavings (preemption bound) of concurrent cache operations with symbolic keys; every interleaving is checked by a happens-before race detector "
    "over the interpreter's memory accesses; value integrity of Get results and Stats bounds asserted in every snapshot.",
    SCHED + "; happens-before race detection",
    "Full linearizability checking of Get results is not built (see outside_bound).")

chk("C17",
    "Bounded exploration of all interleavings (preemption bound) of concurrent OnceConstructor.Get calls with symbolic keys (incl. a gate variant in which one construction blocks) "
    "and of ChanSemaphore clients with a canceller; exactly-once construction, single result, non-blocking of other keys (deadlock detection), holder bound, error-on-done and non-blocking Release asserted.",
    SCHED)

chk("C18",
    "Bounded symbolic execution of SignalHandler.Handle over all outcome vectors (nil/error/panic) and signal sequences, and of RefreshWorker under an injected clock over all interleavings "
    "(preemption bound) of driver and worker: reverse-order complete shutdown, exit code, one Refresh per tick with the constructor's context, error hand-over, delays from the schedule, no refresh after Shutdown.",
    SCHED,
    "One known finding is recorded (a pending tick can be refreshed after Shutdown returned).")

_pending = "check not built yet in this session; see DESIGN.md for the plan"
for pid in ["C01","C02","C03","C04","C05","C07","C08","C09","C10","C11","C12","C13","C14","C15","C16","C17","C18"]:
    if pid not in CHECKS:
        NA[pid] = _pending
NA["C19"] = ("output bytes come from slog.TextHandler and encoding/json's reflection-driven encoder over pooled buffers; "
             "not executable by an SSA->SMT executor within reach, and stubbing both leaves nothing for a solver to decide (DESIGN.md section 6)")
NA["C20"] = ("property is about sync.Pool reuse across overlapping net/http requests and slog loggers: large reflective std structures, "
             "schedule x pool-reuse enumeration with no symbolic data for a solver to decide (DESIGN.md section 6)")
