# Claimed checks and not-applicable properties (exec'd by mkmanifest.py).
SMT = "solver-based: bounded symbolic execution of the real code (go/ssa -> SMT-LIB2 bit-vectors, z3)"

chk("C06",
    "Bounded symbolic model checking of IsLocallyServed/IsSpecialPurpose against a reference generated from their doc comments; "
    "all address bits are symbolic so the verdict covers every IPv4/IPv6 address (the only bound is the zone length, which the code never reads).",
    SMT + "; implementation and doc-derived reference each merged to one term, equivalence decided per address kind")

_pending = "check not built yet in this session; see DESIGN.md for the plan"
for pid in ["C01","C02","C03","C04","C05","C07","C08","C09","C10","C11","C12","C13","C14","C15","C16","C17","C18"]:
    if pid not in CHECKS:
        NA[pid] = _pending
NA["C19"] = ("output bytes come from slog.TextHandler and encoding/json's reflection-driven encoder over pooled buffers; "
             "not executable by an SSA->SMT executor within reach, and stubbing both leaves nothing for a solver to decide (DESIGN.md section 6)")
NA["C20"] = ("property is about sync.Pool reuse across overlapping net/http requests and slog loggers: large reflective std structures, "
             "schedule x pool-reuse enumeration with no symbolic data for a solver to decide (DESIGN.md section 6)")
