#!/bin/sh
# runs every registered quick (or $1=thorough) check and prints one line each
tier=${1:-quick}
for id in $(python3 -c "import json; print(' '.join(c['property_id'] for c in json.load(open('/verif/MANIFEST.json'))['checks']))"); do
  start=$(date +%s)
  /verif/bin/gosym check $id --tier $tier > /tmp/runall_$id.log 2>&1
  code=$?
  end=$(date +%s)
  echo "$id exit=$code $((end-start))s $(grep -c '^VIOLATION' /tmp/runall_$id.log) violations; $(tail -1 /tmp/runall_$id.log | cut -c1-150)"
done
