#!/bin/sh
# runs every registered quick (or $1=thorough) check and prints one line each; $2 = per-check timeout in seconds
tier=${1:-quick}
lim=${2:-3600}
ids=${3:-$(python3 -c "import json; print(' '.join(c['property_id'] for c in json.load(open('/verif/MANIFEST.json'))['checks']))")}
for id in $ids; do
  start=$(date +%s)
  timeout $lim /verif/bin/gosym check $id --tier $tier > /tmp/runall_${tier}_$id.log 2>&1
  code=$?
  end=$(date +%s)
  echo "$id exit=$code $((end-start))s $(grep -c '^VIOLATION' /tmp/runall_${tier}_$id.log) violations; $(tail -1 /tmp/runall_${tier}_$id.log | cut -c1-150)"
done
