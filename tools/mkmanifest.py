#!/usr/bin/env python3
"""Writes /verif/MANIFEST.json from the table below (kept in one place so the
manifest stays valid and consistent with what gosym registers)."""
import json, sys

SETUP = "cd /verif/engine && GOTOOLCHAIN=local GOFLAGS=-mod=mod GOPROXY=off go1.26.8 build -o /verif/bin/gosym ./cmd/gosym"
BASE_NOTE = ("Trusted base: go/packages+go/types+go/ssa (x/tools v0.50.0) as front end; gosym's SSA instruction semantics, "
             "intrinsics and stubs (listed in the evidence file); z3 4.8.12; the oracle named in the evidence. "
             "Bounded: nothing is claimed outside the bounds listed under technique_details.bounds / outside_bound. "
             "Counterexamples are reported only after they reproduce natively against the real build.")

CHECKS = {}
def chk(pid, text, technique, note=""):
    CHECKS[pid] = dict(text=text, technique=technique, note=note)

NA = {}

exec(open('/verif/tools/manifest_table.py').read())

m = {
    "version": 1,
    "setup_cmd": SETUP,
    "hooks": {
        "guard": "verif",
        "enable": "no source hooks: harnesses (/verif/harness) and the nondet runtime (/verif/rt/verifrt) are injected into /repo packages with go/packages Overlay and `go test -tags verif -overlay`; the //go:build verif tag guards every injected file",
        "baseline_off_cmd": "cd /repo && env -u GOSUMDB GOFLAGS=-mod=mod GOPROXY=off GOTOOLCHAIN=auto go test -json -vet=off -count=1 -timeout 25m ./...",
        "source_commits": [],
        "add_only": True,
    },
    "engines": [{
        "name": "gosym",
        "path": "/verif/engine",
        "serves_properties": sorted(CHECKS),
        "kind_free_text": "bounded symbolic executor for go/ssa (real /repo code + real std sources) with z3 as decision procedure; replay-based DFS, byte-domain front solver, native replay of models",
    }],
    "checks": [],
    "not_applicable": [{"property_id": k, "reason": v} for k, v in sorted(NA.items())],
    "notes": "Exit codes of every command: 0 = held on everything explored (known findings printed as KNOWN-FINDING lines), 1 = natively reproduced violation (VIOLATION line), 2 = inconclusive (solver unknown, unsupported construct, harness does not compile against the tree, vacuous cover point); see DESIGN.md section 4.",
}
for pid in sorted(CHECKS):
    c = CHECKS[pid]
    m["checks"].append({
        "property_id": pid,
        "quick_cmd": f"/verif/bin/gosym check {pid} --tier quick",
        "thorough_cmd": f"/verif/bin/gosym check {pid} --tier thorough",
        "evidence_file": f"/verif/evidence/{pid}.json",
        "replay_cmd_template": "/verif/bin/gosym replay {path}",
        "engine": "gosym",
        "level_claimed": {"category": "model_checking", "text": c["text"], "design_ref": f"DESIGN.md section 5, {pid}"},
        "level_note": (c["note"] + " " if c["note"] else "") + BASE_NOTE,
        "technique": c["technique"],
    })
json.dump(m, open('/verif/MANIFEST.json', 'w'), indent=1)
print("wrote MANIFEST.json with", len(m["checks"]), "checks,", len(m["not_applicable"]), "not applicable")
