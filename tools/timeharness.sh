#!/bin/sh
# usage: timeharness.sh <tier> <per-harness limit s> [ids...]  -- one line per harness: id harness exit wall status
tier=${1:-thorough}; lim=${2:-480}; shift 2
ids="$@"
/verif/bin/gosym list | while read id h; do
  if [ -n "$ids" ]; then case " $ids " in *" $id "*) ;; *) continue;; esac; fi
  start=$(date +%s)
  GOSYM_TIME_LIMIT_S=$lim timeout $((lim+300)) /verif/bin/gosym check $id --tier $tier --only $h > /tmp/th_${id}_$h.log 2>&1
  code=$?
  end=$(date +%s)
  echo "$id $h exit=$code $((end-start))s $(grep -E '^harness '$h':' /tmp/th_${id}_$h.log | sed 's/.*paths=/paths=/' | cut -c1-90) $(grep -c 'time limit' /tmp/th_${id}_$h.log)tl"
done
